/-
  C05, the numeric clause UNDER A DELAY MODEL — "for every finite delay pattern the run reaches
  `is_finished()` within the serial bound, the task terms being the DELAYED runtimes" — for the three
  shipped algorithms that TopsimProps/C05BoundDelay.lean (QueueProcessing) leaves open: BatchProcessing,
  DynamicSchedulingFromPlan and GreedySchedulingFromPlan, on the deterministic simulator (L3), for an
  ARBITRARY environment `env : SimEnv` (any delay table, any delay script, both, or none).  Generalises
  `C05_bound_batch_simpy` (TopsimProps/C05BoundBatch.lean) and `C05_bound_{dynamic,greedy}_corrected_simpy`
  (TopsimProps/C05BoundPlan.lean), which need `env.delayTable = []` and `env.delayScript = []`.

  How a delay reaches a task (`Sys.doWorkBlock`, `nominalDuration`, `SimEnv.bodyTotal`).  The body of a
  workflow task is handed `table[dur]` if the delay table has an entry for its NOMINAL duration `dur`,
  else `dur + script[k % len]`, else `dur`; `dur` is the runtime on the machine the task was given when
  the task carries work, and the PLANNED duration `eft - est` of its record when it carries none
  (`comp = task_data = 0`).  So the table / script IS applied to the planned duration of a task without
  work, exactly as to a computed runtime.

  The bounds.
    * BatchProcessing: `Sys.serialBoundD env s0` of C05BoundDelay — every task is charged
      `boundDOcc env s0 comp data` = the largest total the environment can hand it on any machine of the
      cluster (a reservation is a set of machines of the cluster).
    * Plan-following: `C05_planSerialBoundD env s0` (= `boundEP_serial`, TopsimProofs/BoundE3.lean) =
      `Sys.serialBoundD env s0` in which the occupancy term of a node WITHOUT work is
      `max 1 (max over the rows (node, machine, est, eft) of the static plan naming the node of boundDTot env (eft - est))`
      (`boundE_planTot`; a table need not be monotone, so this is not `boundDTot` of the largest planned
      duration).  A node with work is charged `boundDOcc` (planned machine, or greedy's fallback: some
      machine of the cluster).

  What is proved.
  (1) `C05_bound_batch_delay_simpy` — the hypotheses of `C05_bound_batch_simpy` WITHOUT the two no-delay
      hypotheses: there is `n` such that the state after `n` kernel steps is at `is_finished()`, nothing
      has raised, the run up to there is one uninterrupted `env.run`, and the clock is
      `≤ Sys.serialBoundD env s0`.  `C05_bound_batch_delay_statement(_holds)`: the clause as a `Prop`;
      `C05_bound_batch_delay_sharp_simpy`: the smaller number `C05_sharpBoundD`;
      `C05_bound_batch_simpy_from_delay`: the old theorem follows (`serialBoundD_nodelay_feasible`).
  (2) `C05_bound_dynamic_delay_simpy`, `C05_bound_greedy_delay_simpy` — the hypotheses of
      `C05_bound_{dynamic,greedy}_corrected_simpy` without the no-delay hypotheses, bound
      `C05_planSerialBoundD env s0`.  `C05_planSerialBoundD_nodelay`: without delays it is
      `≤ C05_planSerialBound env s0`, so the old corrected theorems follow
      (`C05_bound_{dynamic,greedy}_corrected_simpy_from_delay`).  `C05_bound_plan_delay_sharp_simpy`:
      the smaller number `C05_planSharpBoundD`.
  (3) `C05_bound_dynamic_delay_simpy_partial`, `C05_bound_greedy_delay_simpy_partial` — the bound
      `Sys.serialBoundD env s0` (the number of the queue / batch theorems) under ONE extra hypothesis
      `C05_PlanDurOkD env s0`: every plan row of a node without work is handed by the environment at most
      what a planned duration 0 is handed, `boundDTot env (eft - est) ≤ max 1 (boundDTot env 0)`.  It holds
      when every node carries work (`C05_PlanDurOkD_of_work`, `C05_bound_plan_work_delay_simpy_partial`),
      when such rows book no time (`C05_PlanDurOkD_of_zero`: both shipped planners), and without a delay
      model it IS `C05_PlanDurOk` (`C05_PlanDurOkD_nodelay`).
  (4) THE HYPOTHESIS OF (3) CANNOT BE WEAKENED TO `C05_PlanDurOk` (the hypothesis of the un-delayed
      `…_partial`): `C05_bound_plan_delay_counterexample_{dynamic,greedy}` — configuration `boundP_cxW alg`
      (one machine, one observation, one node with comp = task_data = 0) with the environment
      `boundE_cxEnv` (plan row `(0, 0, 0, 1)`: ONE step booked; delay table `1 ↦ 30`) meets every
      hypothesis and `C05_PlanDurOk`, `Sys.serialBoundD = 10`, and at EVERY index at which its run is at
      `is_finished()` the clock is ≥ 33 (first such index 213, `decide +kernel`);
      `C05_planSerialBoundD = 39`.  `C05_bound_{dynamic,greedy}_delay_durOk_statement_false`.
  (5) the delayed terms are needed for BatchProcessing too: `C05_serialBound_exceeded_under_delay_batch`
      (configuration `boundE_witB`, environment `boundE_env1`: clock 28 > `Sys.serialBound = 15`).
  (6) timed stage lemmas with delayed durations (trajectory level): `C05_bound_invariant_batch_delay_simpy`,
      `C05_worker_deadline_batch_delay_simpy`, `C05_plan_bound_invariant_delay_simpy`,
      `C05_plan_worker_deadline_delay_simpy`, `C05_plan_delayed_occupancy_simpy`.

  Before proving, the statements were evaluated with the executable model: BatchProcessing on `boundB_wit`
  with 1–3 partitions, with / without split, minimum 1–2 (6 shapes) × 7 environments (non-monotone tables
  that also shorten, scripts, both); static plans (all tasks of two workflows on one machine; nodes
  without work with planned durations 0 / 1 / 5) × 9 environments × both algorithms: every run finished
  within the sharp numbers; the plan runs with a table entry for the planned duration of a node without
  work exceed `Sys.serialBoundD` (e.g. clock 212 against 40), which led to finding (4).

  How (TopsimProofs/BoundE1 … BoundE7): the assembly of Bound9 once for an abstract weight (BoundE1); for
  BatchProcessing the delayed weight `boundDV` of BoundD1 and BoundD4's invariant, whose step lemma does not
  depend on the algorithm (BoundE2); for the plans the weight `boundEP_V` (BoundE3), the strengthening of
  BoundP6b's record invariant from "planned duration ≤ the largest row" to "= some row" (BoundE4), the
  invariant of the workflow-task workers with `boundEP_tw_R` (BoundE5), along the run (BoundE6); idle
  states and persistence of enabled pollers are reused from BoundB5 / BoundP7 / BoundP8 because the weights
  change at the same steps.
-/
import TopsimProofs.BoundE2
import TopsimProofs.BoundE7
import TopsimProps.C05BoundDelay
import TopsimProps.C05BoundBatch
import TopsimProps.C05BoundPlan

namespace Topsim

open KState Sys

/-! ## BatchProcessing -/

/-- **`C05_bound_batch_delay_simpy`** — BatchProcessing, batch planning, well-formed feasible
configuration (`hmin` for a split), initially empty full-free buffer, H1 (`NoTierCfg`), H4 (`IsTopo`),
ANY delay environment: after some number `n` of kernel steps the run is at `is_finished()`, nothing has
raised, and the simulated clock is within the delayed serial bound. -/
theorem C05_bound_batch_delay_simpy (env : SimEnv) (s0 : Sys) (hw : Sys.WFConfig s0)
    (hfe : Sys.Feasible s0)
    (hb0 : s0.buf.hot.stored = [] ∧ s0.buf.hot.scheduled = [] ∧ s0.buf.hot.finished = [] ∧
      s0.buf.cold.stored = [])
    (hfull : s0.buf.size = [] ∧ s0.buf.hot.cur = s0.buf.hot.total ∧ s0.buf.cold.cur = s0.buf.cold.total)
    (hct : s0.buf.cold.transfer = none) (hh0 : s0.halted = false)
    (hH1 : Sys.NoTierCfg s0)
    {parts minPer : Nat} {split : Option (List (Oid × Nat × Nat))}
    (halg : s0.alg = .batch parts minPer split)
    (hmin : ∀ sp, split = some sp → minPer ≤ s0.machines.length)
    (hstat : s0.staticPlan = false) (htopo : ∀ o ∈ s0.obs, IsTopo o.wf) :
    ∃ n, (ilSimSteps env n (SimState.start s0)).st.isFinished = true ∧
      (ilSimSteps env n (SimState.start s0)).st.crashed = none ∧
      SimRun env s0 (ilSimSteps env n (SimState.start s0)) ∧
      C05_clock env s0 n ≤ ((Sys.serialBoundD env s0 : Nat) : Time) := by
  obtain ⟨n, h1, h2, h3, h4⟩ :=
    boundEB_batch_clock (env := env)
      ⟨hw, hfe, hb0, hfull, hct, hH1, ⟨parts, minPer, split, halg⟩, hstat, htopo, hh0,
        Sys.batchMinOk_of halg hmin⟩
  rw [simAt_eq_ilSimSteps] at h1 h2 h3
  exact ⟨n, h1, h2, h3, h4⟩

/-- the statement of the numeric clause under a delay model for BatchProcessing, as a `Prop` -/
def C05_bound_batch_delay_statement : Prop :=
  ∀ (env : SimEnv) (s0 : Sys), Sys.WFConfig s0 → Sys.Feasible s0 →
    (s0.buf.hot.stored = [] ∧ s0.buf.hot.scheduled = [] ∧ s0.buf.hot.finished = [] ∧
      s0.buf.cold.stored = []) →
    (s0.buf.size = [] ∧ s0.buf.hot.cur = s0.buf.hot.total ∧ s0.buf.cold.cur = s0.buf.cold.total) →
    s0.buf.cold.transfer = none → s0.halted = false → Sys.NoTierCfg s0 →
    ∀ (parts minPer : Nat) (split : Option (List (Oid × Nat × Nat))),
    s0.alg = .batch parts minPer split → (∀ sp, split = some sp → minPer ≤ s0.machines.length) →
    s0.staticPlan = false → (∀ o ∈ s0.obs, IsTopo o.wf) →
    ∃ n, (ilSimSteps env n (SimState.start s0)).st.isFinished = true ∧
      (ilSimSteps env n (SimState.start s0)).st.crashed = none ∧
      C05_clock env s0 n ≤ ((Sys.serialBoundD env s0 : Nat) : Time)

/-- the clause holds as stated: there is no counterexample -/
theorem C05_bound_batch_delay_statement_holds : C05_bound_batch_delay_statement := by
  intro env s0 hw hfe hb0 hfull hct hh0 hH1 parts minPer split halg hmin hstat htopo
  obtain ⟨n, h1, h2, _, h4⟩ :=
    C05_bound_batch_delay_simpy env s0 hw hfe hb0 hfull hct hh0 hH1 halg hmin hstat htopo
  exact ⟨n, h1, h2, h4⟩

/-- **The delayed bound with the smaller constants**, BatchProcessing: `C05_sharpBoundD env s0 = latest +
Σ_obs (duration + 3 + Σ_nodes (boundDOcc + ⌈max transfer / slowest bw⌉ + 1))`; the reservation stage adds
nothing under a delay model either. -/
theorem C05_bound_batch_delay_sharp_simpy (env : SimEnv) (s0 : Sys) (hw : Sys.WFConfig s0)
    (hfe : Sys.Feasible s0)
    (hb0 : s0.buf.hot.stored = [] ∧ s0.buf.hot.scheduled = [] ∧ s0.buf.hot.finished = [] ∧
      s0.buf.cold.stored = [])
    (hfull : s0.buf.size = [] ∧ s0.buf.hot.cur = s0.buf.hot.total ∧ s0.buf.cold.cur = s0.buf.cold.total)
    (hct : s0.buf.cold.transfer = none) (hh0 : s0.halted = false)
    (hH1 : Sys.NoTierCfg s0)
    {parts minPer : Nat} {split : Option (List (Oid × Nat × Nat))}
    (halg : s0.alg = .batch parts minPer split)
    (hmin : ∀ sp, split = some sp → minPer ≤ s0.machines.length)
    (hstat : s0.staticPlan = false) (htopo : ∀ o ∈ s0.obs, IsTopo o.wf) :
    ∃ n, (ilSimSteps env n (SimState.start s0)).st.isFinished = true ∧
      (ilSimSteps env n (SimState.start s0)).st.crashed = none ∧
      SimRun env s0 (ilSimSteps env n (SimState.start s0)) ∧
      C05_clock env s0 n ≤ ((C05_sharpBoundD env s0 : Nat) : Time) := by
  obtain ⟨n, h1, h2, h3, h4⟩ :=
    boundEB_batch_clock_sharp (env := env)
      ⟨hw, hfe, hb0, hfull, hct, hH1, ⟨parts, minPer, split, halg⟩, hstat, htopo, hh0,
        Sys.batchMinOk_of halg hmin⟩
  rw [simAt_eq_ilSimSteps] at h1 h2 h3
  exact ⟨n, h1, h2, h3, h4⟩

/-- **The new theorem generalises `C05_bound_batch_simpy`**: the un-delayed bound for BatchProcessing,
derived from the delayed one (`serialBoundD_nodelay_feasible`: without a delay model the new number is
within the old one). -/
theorem C05_bound_batch_simpy_from_delay (env : SimEnv) (s0 : Sys) (hw : Sys.WFConfig s0)
    (hfe : Sys.Feasible s0)
    (hb0 : s0.buf.hot.stored = [] ∧ s0.buf.hot.scheduled = [] ∧ s0.buf.hot.finished = [] ∧
      s0.buf.cold.stored = [])
    (hfull : s0.buf.size = [] ∧ s0.buf.hot.cur = s0.buf.hot.total ∧ s0.buf.cold.cur = s0.buf.cold.total)
    (hct : s0.buf.cold.transfer = none) (hh0 : s0.halted = false)
    (hH1 : Sys.NoTierCfg s0)
    {parts minPer : Nat} {split : Option (List (Oid × Nat × Nat))}
    (halg : s0.alg = .batch parts minPer split)
    (hmin : ∀ sp, split = some sp → minPer ≤ s0.machines.length)
    (hstat : s0.staticPlan = false) (htopo : ∀ o ∈ s0.obs, IsTopo o.wf)
    (hd1 : env.delayTable = []) (hd2 : env.delayScript = []) :
    ∃ n, (ilSimSteps env n (SimState.start s0)).st.isFinished = true ∧
      (ilSimSteps env n (SimState.start s0)).st.crashed = none ∧
      SimRun env s0 (ilSimSteps env n (SimState.start s0)) ∧
      C05_clock env s0 n ≤ ((Sys.serialBound s0 : Nat) : Time) := by
  obtain ⟨n, h1, h2, h3, h4⟩ :=
    C05_bound_batch_delay_simpy env s0 hw hfe hb0 hfull hct hh0 hH1 halg hmin hstat htopo
  refine ⟨n, h1, h2, h3, Rat.le_trans h4 ?_⟩
  exact_mod_cast serialBoundD_nodelay_feasible env s0 hfe hd1 hd2

section
variable {env : SimEnv} {s0 : Sys}

/-- **The accounting invariant, delayed, BatchProcessing.**  At every index up to which the run is not
at `is_finished()` the time of the next event is within `latest + V_delayed` (`boundDV`: admission
`duration + 1`, hand-over 1, removal 1, task start `boundDWAT`; obtaining, being refused or releasing a
reservation weighs nothing). -/
theorem C05_bound_invariant_batch_delay_simpy (C : LiveCfgB env s0) (hh0 : s0.halted = false) (n : Nat)
    (hnf : ∀ j, j ≤ n → (simAt env s0 j).st.isFinished = false) :
    boundTau env s0 n ≤ ((boundLatest s0 + boundDV env s0 (simAt env s0 n).st : Nat) : Time) :=
  boundEB_inv_all C (liveKernel_B C hh0) n hnf

/-- **Timed liveness of the workers, delayed, BatchProcessing.**  Before `is_finished()`, every live
worker process is due, and so ends, by `latest + V_delayed - 1`: a task started on a machine of its
reservation pre-pays the largest total the environment can hand its body on any machine + its largest
transfer wait + 1. -/
theorem C05_worker_deadline_batch_delay_simpy (C : LiveCfgB env s0) (hh0 : s0.halted = false) (n : Nat)
    (hnf : ∀ j, j < n → (simAt env s0 j).st.isFinished = false)
    {q : Proc} (hq : q ∈ (simAt env s0 n).st.procs) (ha : q.alive = true) (hw : q.BoundWorker) :
    q.wake + 1 ≤ ((boundLatest s0 + boundDV env s0 (simAt env s0 n).st : Nat) : Time) :=
  (boundEB_asm C (liveKernel_B C hh0)).tl n
    (fun j hj => boundEB_inv_all C (liveKernel_B C hh0) j (fun i hi => hnf i (by omega))) q hq ha hw

end

/-! ### BatchProcessing: the hypotheses are satisfiable with a NON-EMPTY delay environment, and the
un-delayed serial bound is exceeded -/

/-- the hypotheses of `C05_bound_batch_delay_simpy` hold of configuration `boundB_wit` (three machines, 2
partitions, a per-observation split, three observations competing for the partitions) — the
environment, any, is here `boundE_env1` (table `2 ↦ 20`, script `[3]`) -/
example : Sys.WFConfig boundB_wit ∧ Sys.Feasible boundB_wit ∧
    (boundB_wit.buf.hot.stored = [] ∧ boundB_wit.buf.hot.scheduled = [] ∧ boundB_wit.buf.hot.finished = [] ∧
      boundB_wit.buf.cold.stored = []) ∧
    (boundB_wit.buf.size = [] ∧ boundB_wit.buf.hot.cur = boundB_wit.buf.hot.total ∧
      boundB_wit.buf.cold.cur = boundB_wit.buf.cold.total) ∧
    boundB_wit.buf.cold.transfer = none ∧ boundB_wit.halted = false ∧
    Sys.NoTierCfg boundB_wit ∧
    boundB_wit.alg = .batch 2 1 (some [(0, 1, 2), (1, 1, 1), (2, 1, 1)]) ∧
    (∀ sp, some [(0, 1, 2), (1, 1, 1), (2, 1, 1)] = some sp → 1 ≤ boundB_wit.machines.length) ∧
    boundB_wit.staticPlan = false ∧ (∀ o ∈ boundB_wit.obs, IsTopo o.wf) ∧
    boundE_env1.delayTable ≠ [] ∧ boundE_env1.delayScript ≠ [] :=
  ⟨boundB_wit_wf, boundB_wit_feasible, ⟨rfl, rfl, rfl, rfl⟩, ⟨rfl, rfl, rfl⟩, rfl, rfl, boundB_wit_h1, rfl,
    fun _ _ => by decide, rfl, boundB_wit_topo, by decide, by decide⟩

/-- the numbers on `boundB_wit`: un-delayed 67, delayed 130 (sharp 110) under `boundE_env1` -/
example : Sys.serialBound boundB_wit = 67 ∧ Sys.serialBoundD boundE_env1 boundB_wit = 130 ∧
    C05_sharpBoundD boundE_env1 boundB_wit = 110 ∧ Sys.serialBoundD {} boundB_wit = 67 := by decide

/-- … and of the small configuration `boundE_witB` (`c04W1` under BatchProcessing, one partition, no
split) -/
example : Sys.WFConfig boundE_witB ∧ Sys.Feasible boundE_witB ∧ Sys.NoTierCfg boundE_witB ∧
    boundE_witB.alg = .batch 1 1 none ∧ boundE_witB.staticPlan = false ∧
    (∀ o ∈ boundE_witB.obs, IsTopo o.wf) ∧
    boundE_env1.delayTable ≠ [] ∧ boundE_env1.delayScript ≠ [] :=
  ⟨(boundE_witB_cfg {}).hw, (boundE_witB_cfg {}).feas, (boundE_witB_cfg {}).h1, rfl, rfl,
    (boundE_witB_cfg {}).topo, by decide, by decide⟩

/-- **The delayed run of `boundE_witB`**: first at `is_finished()` after 185 kernel steps, nothing has
raised, clock 28 — beyond `Sys.serialBound = 15`, within `C05_sharpBoundD = 30` and
`Sys.serialBoundD = 36`. -/
theorem C05_delay_witness_run_batch :
    (ilSimSteps boundE_env1 185 (SimState.start boundE_witB)).st.isFinished = true ∧
    C05_clock boundE_env1 boundE_witB 185 = 28 ∧
    Sys.serialBound boundE_witB = 15 ∧ C05_sharpBoundD boundE_env1 boundE_witB = 30 ∧
    Sys.serialBoundD boundE_env1 boundE_witB = 36 := by
  obtain ⟨_, g2, g3, _⟩ := boundP_firstFin_spec _ _ _ 0 _ _ boundE_witB_first
  rw [simAt_eq_ilSimSteps] at g2
  exact ⟨g2, g3.symm, boundE_witB_numbers.1, boundE_witB_numbers.2.2.1, boundE_witB_numbers.2.1⟩

/-- **The un-delayed serial bound is exceeded under a delay model, BatchProcessing**: every index at
which the run of `boundE_witB` under `boundE_env1` is at `is_finished()` has its clock beyond
`Sys.serialBound boundE_witB = 15`. -/
theorem C05_serialBound_exceeded_under_delay_batch :
    ∀ n, (ilSimSteps boundE_env1 n (SimState.start boundE_witB)).st.isFinished = true →
      ((Sys.serialBound boundE_witB : Nat) : Time) < C05_clock boundE_env1 boundE_witB n := by
  intro n hn
  rw [← simAt_eq_ilSimSteps] at hn
  have h1 := boundE_witB_exceeds n hn
  rw [boundE_witB_numbers.1]
  show ((15 : Nat) : Time) < boundClock _ _ n
  have h2 : ((15 : Nat) : Time) < 28 := by decide
  grind

/-- the clause of `C05_bound_batch_simpy` WITHOUT its no-delay hypotheses (`Sys.serialBound` for an
arbitrary environment) -/
def C05_bound_batch_anyenv_statement : Prop :=
  ∀ (env : SimEnv) (s0 : Sys), Sys.WFConfig s0 → Sys.Feasible s0 →
    (s0.buf.hot.stored = [] ∧ s0.buf.hot.scheduled = [] ∧ s0.buf.hot.finished = [] ∧
      s0.buf.cold.stored = []) →
    (s0.buf.size = [] ∧ s0.buf.hot.cur = s0.buf.hot.total ∧ s0.buf.cold.cur = s0.buf.cold.total) →
    s0.buf.cold.transfer = none → s0.halted = false → Sys.NoTierCfg s0 →
    ∀ (parts minPer : Nat) (split : Option (List (Oid × Nat × Nat))),
    s0.alg = .batch parts minPer split → (∀ sp, split = some sp → minPer ≤ s0.machines.length) →
    s0.staticPlan = false → (∀ o ∈ s0.obs, IsTopo o.wf) →
    ∃ n, (ilSimSteps env n (SimState.start s0)).st.isFinished = true ∧
      (ilSimSteps env n (SimState.start s0)).st.crashed = none ∧
      C05_clock env s0 n ≤ ((Sys.serialBound s0 : Nat) : Time)

/-- … is false: with a delay model the task terms of the bound have to be the delayed runtimes -/
theorem C05_bound_batch_anyenv_statement_false : ¬ C05_bound_batch_anyenv_statement := by
  intro h
  have N := boundE_witB_cfg boundE_env1
  obtain ⟨n, hfin, _, hle⟩ := h boundE_env1 boundE_witB N.hw N.feas N.hb0 N.hfull N.hct N.hh0 N.h1 1 1 none rfl
    (fun sp e => by cases e) N.stat N.topo
  exact absurd (C05_serialBound_exceeded_under_delay_batch n hfin) (Rat.not_lt.mpr hle)

/-! ## the plan-following algorithms -/

/-- **the serial bound under a delay environment for a run that follows the static plans of `env`**
(`c = 3`): `Sys.serialBoundD env s0` in which a node WITHOUT work is charged
`max 1 (the largest boundDTot env (eft - est) over the plan rows naming it)` -/
def C05_planSerialBoundD (env : SimEnv) (s0 : Sys) : Nat := boundEP_serial env s0

/-- every row of a static plan that names a node listed with `comp = 0` and `task_data = 0` is handed by
the environment at most what a planned duration 0 is handed (at least one step) -/
def C05_PlanDurOkD (env : SimEnv) (s0 : Sys) : Prop := BoundEPDurOk env s0

/-- every row of a static plan that names a node listed with `comp = 0` and `task_data = 0` books no
time (`eft - est = 0`) -/
def C05_PlanDurZero (env : SimEnv) (s0 : Sys) : Prop := BoundEPDurZero env s0

/-- **Without a delay model the delayed plan bound is within the corrected plan bound** of
TopsimProps/C05BoundPlan.lean (machines with positive speeds: part of `Sys.Feasible`). -/
theorem C05_planSerialBoundD_nodelay (env : SimEnv) (s0 : Sys) (hfe : Sys.Feasible s0)
    (hd1 : env.delayTable = []) (hd2 : env.delayScript = []) :
    C05_planSerialBoundD env s0 ≤ C05_planSerialBound env s0 :=
  boundEP_serial_nodelay hd1 hd2 s0 hfe.2.1

/-- under `C05_PlanDurOkD` the delayed plan bound is within `Sys.serialBoundD` -/
theorem C05_planSerialBoundD_le_serialBoundD {env : SimEnv} {s0 : Sys} (hfe : Sys.Feasible s0)
    (h : C05_PlanDurOkD env s0) : C05_planSerialBoundD env s0 ≤ Sys.serialBoundD env s0 :=
  boundEP_serial_le_serialD h (fun e => by have := hfe.2.2.1; rw [e] at this; exact absurd this (by decide))

theorem C05_PlanDurOkD_of_zero {env : SimEnv} {s0 : Sys} (h : C05_PlanDurZero env s0) :
    C05_PlanDurOkD env s0 := boundEP_durOk_of_zero h

/-- when every node of every workflow carries work no plan row is constrained -/
theorem C05_PlanDurOkD_of_work {env : SimEnv} {s0 : Sys}
    (h : ∀ o ∈ s0.obs, ∀ n ∈ o.wf.nodes, 0 < n.2.1 ∨ 0 < n.2.2) : C05_PlanDurOkD env s0 := by
  intro o ho n hn h1 h2
  rcases h o ho n hn with h | h <;> omega

/-- without a delay model `C05_PlanDurOkD` is `C05_PlanDurOk` -/
theorem C05_PlanDurOkD_nodelay {env : SimEnv} (hd1 : env.delayTable = []) (hd2 : env.delayScript = [])
    (s0 : Sys) : C05_PlanDurOkD env s0 ↔ C05_PlanDurOk env s0 :=
  boundEP_durOk_nodelay hd1 hd2 s0

/-- why the charge of a node without work maximises `boundDTot` over its plan rows instead of applying
it to the largest planned duration (`boundP_planDur`): a delay table need not be monotone — here the rows
book 2 and 5 steps, the table sends 2 to 40 and 5 to 0 -/
example :
    boundE_planTot { delayTable := [(2, 40), (5, 0)], staticPlans := [(0, [(0, 0, 0, 2), (0, 0, 5, 10)])] }
      boundP_cxObs 0 = 40 ∧
    SimEnv.boundDTot { delayTable := [(2, 40), (5, 0)], staticPlans := [(0, [(0, 0, 0, 2), (0, 0, 5, 10)])] }
      (boundP_planDur { delayTable := [(2, 40), (5, 0)], staticPlans := [(0, [(0, 0, 0, 2), (0, 0, 5, 10)])] }
        boundP_cxObs 0) = 0 := by decide

/-! ### (2) the bound with `C05_planSerialBoundD` -/

/-- **`C05_bound_dynamic_delay_simpy`.**  DynamicSchedulingFromPlan, the hypotheses of
`C05_terminates_dynamic_simpy_noH2`, ANY delay environment: after some number `n` of kernel steps the run
is at `is_finished()`, nothing has raised, the run up to there is one uninterrupted `env.run`, and the
simulated clock is within the delayed plan bound. -/
theorem C05_bound_dynamic_delay_simpy (env : SimEnv) (s0 : Sys) (hw : Sys.WFConfig s0)
    (hfe : Sys.Feasible s0)
    (hb0 : s0.buf.hot.stored = [] ∧ s0.buf.hot.scheduled = [] ∧ s0.buf.hot.finished = [] ∧
      s0.buf.cold.stored = [])
    (hfull : s0.buf.size = [] ∧ s0.buf.hot.cur = s0.buf.hot.total ∧ s0.buf.cold.cur = s0.buf.cold.total)
    (hct : s0.buf.cold.transfer = none) (hh0 : s0.halted = false)
    (hH1 : Sys.NoTierCfg s0) (halg : s0.alg = .dynamic)
    (hstat : s0.staticPlan = true) (htopo : ∀ o ∈ s0.obs, IsTopo o.wf) (hplan : PlanOk env s0) :
    ∃ n, (ilSimSteps env n (SimState.start s0)).st.isFinished = true ∧
      (ilSimSteps env n (SimState.start s0)).st.crashed = none ∧
      SimRun env s0 (ilSimSteps env n (SimState.start s0)) ∧
      C05_clock env s0 n ≤ ((C05_planSerialBoundD env s0 : Nat) : Time) := by
  obtain ⟨n, h1, h2, h3, h4⟩ :=
    boundEP_plan_clock (env := env) ⟨hw, hfe, hb0, hfull, hct, hH1, Or.inl halg, hstat, htopo, hplan, hh0⟩
  rw [simAt_eq_ilSimSteps] at h1 h2 h3
  exact ⟨n, h1, h2, h3, h4⟩

/-- **`C05_bound_greedy_delay_simpy`.**  GreedySchedulingFromPlan, same hypotheses, same number. -/
theorem C05_bound_greedy_delay_simpy (env : SimEnv) (s0 : Sys) (hw : Sys.WFConfig s0)
    (hfe : Sys.Feasible s0)
    (hb0 : s0.buf.hot.stored = [] ∧ s0.buf.hot.scheduled = [] ∧ s0.buf.hot.finished = [] ∧
      s0.buf.cold.stored = [])
    (hfull : s0.buf.size = [] ∧ s0.buf.hot.cur = s0.buf.hot.total ∧ s0.buf.cold.cur = s0.buf.cold.total)
    (hct : s0.buf.cold.transfer = none) (hh0 : s0.halted = false)
    (hH1 : Sys.NoTierCfg s0) (halg : s0.alg = .greedy)
    (hstat : s0.staticPlan = true) (htopo : ∀ o ∈ s0.obs, IsTopo o.wf) (hplan : PlanOk env s0) :
    ∃ n, (ilSimSteps env n (SimState.start s0)).st.isFinished = true ∧
      (ilSimSteps env n (SimState.start s0)).st.crashed = none ∧
      SimRun env s0 (ilSimSteps env n (SimState.start s0)) ∧
      C05_clock env s0 n ≤ ((C05_planSerialBoundD env s0 : Nat) : Time) := by
  obtain ⟨n, h1, h2, h3, h4⟩ :=
    boundEP_plan_clock (env := env) ⟨hw, hfe, hb0, hfull, hct, hH1, Or.inr halg, hstat, htopo, hplan, hh0⟩
  rw [simAt_eq_ilSimSteps] at h1 h2 h3
  exact ⟨n, h1, h2, h3, h4⟩

/-- **The new theorem generalises `C05_bound_dynamic_corrected_simpy`.** -/
theorem C05_bound_dynamic_corrected_simpy_from_delay (env : SimEnv) (s0 : Sys) (hw : Sys.WFConfig s0)
    (hfe : Sys.Feasible s0)
    (hb0 : s0.buf.hot.stored = [] ∧ s0.buf.hot.scheduled = [] ∧ s0.buf.hot.finished = [] ∧
      s0.buf.cold.stored = [])
    (hfull : s0.buf.size = [] ∧ s0.buf.hot.cur = s0.buf.hot.total ∧ s0.buf.cold.cur = s0.buf.cold.total)
    (hct : s0.buf.cold.transfer = none) (hh0 : s0.halted = false)
    (hH1 : Sys.NoTierCfg s0) (halg : s0.alg = .dynamic)
    (hstat : s0.staticPlan = true) (htopo : ∀ o ∈ s0.obs, IsTopo o.wf) (hplan : PlanOk env s0)
    (hd1 : env.delayTable = []) (hd2 : env.delayScript = []) :
    ∃ n, (ilSimSteps env n (SimState.start s0)).st.isFinished = true ∧
      (ilSimSteps env n (SimState.start s0)).st.crashed = none ∧
      SimRun env s0 (ilSimSteps env n (SimState.start s0)) ∧
      C05_clock env s0 n ≤ ((C05_planSerialBound env s0 : Nat) : Time) := by
  obtain ⟨n, h1, h2, h3, h4⟩ :=
    C05_bound_dynamic_delay_simpy env s0 hw hfe hb0 hfull hct hh0 hH1 halg hstat htopo hplan
  refine ⟨n, h1, h2, h3, Rat.le_trans h4 ?_⟩
  exact_mod_cast C05_planSerialBoundD_nodelay env s0 hfe hd1 hd2

/-- **The new theorem generalises `C05_bound_greedy_corrected_simpy`.** -/
theorem C05_bound_greedy_corrected_simpy_from_delay (env : SimEnv) (s0 : Sys) (hw : Sys.WFConfig s0)
    (hfe : Sys.Feasible s0)
    (hb0 : s0.buf.hot.stored = [] ∧ s0.buf.hot.scheduled = [] ∧ s0.buf.hot.finished = [] ∧
      s0.buf.cold.stored = [])
    (hfull : s0.buf.size = [] ∧ s0.buf.hot.cur = s0.buf.hot.total ∧ s0.buf.cold.cur = s0.buf.cold.total)
    (hct : s0.buf.cold.transfer = none) (hh0 : s0.halted = false)
    (hH1 : Sys.NoTierCfg s0) (halg : s0.alg = .greedy)
    (hstat : s0.staticPlan = true) (htopo : ∀ o ∈ s0.obs, IsTopo o.wf) (hplan : PlanOk env s0)
    (hd1 : env.delayTable = []) (hd2 : env.delayScript = []) :
    ∃ n, (ilSimSteps env n (SimState.start s0)).st.isFinished = true ∧
      (ilSimSteps env n (SimState.start s0)).st.crashed = none ∧
      SimRun env s0 (ilSimSteps env n (SimState.start s0)) ∧
      C05_clock env s0 n ≤ ((C05_planSerialBound env s0 : Nat) : Time) := by
  obtain ⟨n, h1, h2, h3, h4⟩ :=
    C05_bound_greedy_delay_simpy env s0 hw hfe hb0 hfull hct hh0 hH1 halg hstat htopo hplan
  refine ⟨n, h1, h2, h3, Rat.le_trans h4 ?_⟩
  exact_mod_cast C05_planSerialBoundD_nodelay env s0 hfe hd1 hd2

/-! ### (3) `Sys.serialBoundD`, for plans whose rows of nodes without work are not lengthened beyond a
planned duration 0 -/

/-- **`C05_bound_dynamic_delay_simpy_partial`.**  DynamicSchedulingFromPlan with the number
`Sys.serialBoundD env s0` of the queue / batch theorems.  Weaker than that target by exactly one
hypothesis, `C05_PlanDurOkD env s0`, which cannot be weakened to `C05_PlanDurOk`
(`C05_bound_plan_delay_counterexample_dynamic`). -/
theorem C05_bound_dynamic_delay_simpy_partial (env : SimEnv) (s0 : Sys) (hw : Sys.WFConfig s0)
    (hfe : Sys.Feasible s0)
    (hb0 : s0.buf.hot.stored = [] ∧ s0.buf.hot.scheduled = [] ∧ s0.buf.hot.finished = [] ∧
      s0.buf.cold.stored = [])
    (hfull : s0.buf.size = [] ∧ s0.buf.hot.cur = s0.buf.hot.total ∧ s0.buf.cold.cur = s0.buf.cold.total)
    (hct : s0.buf.cold.transfer = none) (hh0 : s0.halted = false)
    (hH1 : Sys.NoTierCfg s0) (halg : s0.alg = .dynamic)
    (hstat : s0.staticPlan = true) (htopo : ∀ o ∈ s0.obs, IsTopo o.wf) (hplan : PlanOk env s0)
    (hdur : C05_PlanDurOkD env s0) :
    ∃ n, (ilSimSteps env n (SimState.start s0)).st.isFinished = true ∧
      (ilSimSteps env n (SimState.start s0)).st.crashed = none ∧
      SimRun env s0 (ilSimSteps env n (SimState.start s0)) ∧
      C05_clock env s0 n ≤ ((Sys.serialBoundD env s0 : Nat) : Time) := by
  obtain ⟨n, h1, h2, h3, h4⟩ :=
    C05_bound_dynamic_delay_simpy env s0 hw hfe hb0 hfull hct hh0 hH1 halg hstat htopo hplan
  refine ⟨n, h1, h2, h3, Rat.le_trans h4 ?_⟩
  exact_mod_cast C05_planSerialBoundD_le_serialBoundD hfe hdur

/-- **`C05_bound_greedy_delay_simpy_partial`.**  The same for GreedySchedulingFromPlan. -/
theorem C05_bound_greedy_delay_simpy_partial (env : SimEnv) (s0 : Sys) (hw : Sys.WFConfig s0)
    (hfe : Sys.Feasible s0)
    (hb0 : s0.buf.hot.stored = [] ∧ s0.buf.hot.scheduled = [] ∧ s0.buf.hot.finished = [] ∧
      s0.buf.cold.stored = [])
    (hfull : s0.buf.size = [] ∧ s0.buf.hot.cur = s0.buf.hot.total ∧ s0.buf.cold.cur = s0.buf.cold.total)
    (hct : s0.buf.cold.transfer = none) (hh0 : s0.halted = false)
    (hH1 : Sys.NoTierCfg s0) (halg : s0.alg = .greedy)
    (hstat : s0.staticPlan = true) (htopo : ∀ o ∈ s0.obs, IsTopo o.wf) (hplan : PlanOk env s0)
    (hdur : C05_PlanDurOkD env s0) :
    ∃ n, (ilSimSteps env n (SimState.start s0)).st.isFinished = true ∧
      (ilSimSteps env n (SimState.start s0)).st.crashed = none ∧
      SimRun env s0 (ilSimSteps env n (SimState.start s0)) ∧
      C05_clock env s0 n ≤ ((Sys.serialBoundD env s0 : Nat) : Time) := by
  obtain ⟨n, h1, h2, h3, h4⟩ :=
    C05_bound_greedy_delay_simpy env s0 hw hfe hb0 hfull hct hh0 hH1 halg hstat htopo hplan
  refine ⟨n, h1, h2, h3, Rat.le_trans h4 ?_⟩
  exact_mod_cast C05_planSerialBoundD_le_serialBoundD hfe hdur

/-- **Every node carries work** (`comp > 0` or `task_data > 0`): either plan-following algorithm, any
delay environment, the number `Sys.serialBoundD env s0`. -/
theorem C05_bound_plan_work_delay_simpy_partial (env : SimEnv) (s0 : Sys) (hw : Sys.WFConfig s0)
    (hfe : Sys.Feasible s0)
    (hb0 : s0.buf.hot.stored = [] ∧ s0.buf.hot.scheduled = [] ∧ s0.buf.hot.finished = [] ∧
      s0.buf.cold.stored = [])
    (hfull : s0.buf.size = [] ∧ s0.buf.hot.cur = s0.buf.hot.total ∧ s0.buf.cold.cur = s0.buf.cold.total)
    (hct : s0.buf.cold.transfer = none) (hh0 : s0.halted = false)
    (hH1 : Sys.NoTierCfg s0) (halg : s0.alg = .dynamic ∨ s0.alg = .greedy)
    (hstat : s0.staticPlan = true) (htopo : ∀ o ∈ s0.obs, IsTopo o.wf) (hplan : PlanOk env s0)
    (hwork : ∀ o ∈ s0.obs, ∀ n ∈ o.wf.nodes, 0 < n.2.1 ∨ 0 < n.2.2) :
    ∃ n, (ilSimSteps env n (SimState.start s0)).st.isFinished = true ∧
      (ilSimSteps env n (SimState.start s0)).st.crashed = none ∧
      SimRun env s0 (ilSimSteps env n (SimState.start s0)) ∧
      C05_clock env s0 n ≤ ((Sys.serialBoundD env s0 : Nat) : Time) := by
  rcases halg with halg | halg
  · exact C05_bound_dynamic_delay_simpy_partial env s0 hw hfe hb0 hfull hct hh0 hH1 halg hstat htopo hplan
      (C05_PlanDurOkD_of_work hwork)
  · exact C05_bound_greedy_delay_simpy_partial env s0 hw hfe hb0 hfull hct hh0 hH1 halg hstat htopo hplan
      (C05_PlanDurOkD_of_work hwork)

/-! ### the sharper number -/

/-- latest planned start + per observation (duration + 3) + per workflow node (delayed occupancy — on
any machine, or of a planned duration when the node has no work — + largest transfer wait rounded up
+ 1) -/
def C05_planSharpBoundD (env : SimEnv) (s0 : Sys) : Nat := boundLatest s0 + boundEP_VTotal env s0

theorem C05_planSharpBoundD_le (env : SimEnv) (s0 : Sys) (htopo : ∀ o ∈ s0.obs, IsTopo o.wf) :
    C05_planSharpBoundD env s0 ≤ C05_planSerialBoundD env s0 :=
  boundEP_total_le_serial env s0 htopo

/-- **The delayed plan bound with the smaller constants** (either plan-following algorithm). -/
theorem C05_bound_plan_delay_sharp_simpy (env : SimEnv) (s0 : Sys) (hw : Sys.WFConfig s0)
    (hfe : Sys.Feasible s0)
    (hb0 : s0.buf.hot.stored = [] ∧ s0.buf.hot.scheduled = [] ∧ s0.buf.hot.finished = [] ∧
      s0.buf.cold.stored = [])
    (hfull : s0.buf.size = [] ∧ s0.buf.hot.cur = s0.buf.hot.total ∧ s0.buf.cold.cur = s0.buf.cold.total)
    (hct : s0.buf.cold.transfer = none) (hh0 : s0.halted = false)
    (hH1 : Sys.NoTierCfg s0) (halg : s0.alg = .dynamic ∨ s0.alg = .greedy)
    (hstat : s0.staticPlan = true) (htopo : ∀ o ∈ s0.obs, IsTopo o.wf) (hplan : PlanOk env s0) :
    ∃ n, (ilSimSteps env n (SimState.start s0)).st.isFinished = true ∧
      (ilSimSteps env n (SimState.start s0)).st.crashed = none ∧
      SimRun env s0 (ilSimSteps env n (SimState.start s0)) ∧
      C05_clock env s0 n ≤ ((C05_planSharpBoundD env s0 : Nat) : Time) := by
  obtain ⟨n, h1, h2, h3, h4⟩ :=
    boundEP_plan_clock_sharp (env := env) ⟨hw, hfe, hb0, hfull, hct, hH1, halg, hstat, htopo, hplan, hh0⟩
  rw [simAt_eq_ilSimSteps] at h1 h2 h3
  exact ⟨n, h1, h2, h3, h4⟩

/-! ### (4) `Sys.serialBoundD` under `C05_PlanDurOk` only: false -/

/-- the hypotheses of the delayed plan clause -/
def C05_bound_plan_delay_hyps (env : SimEnv) (s0 : Sys) : Prop :=
  Sys.WFConfig s0 ∧ Sys.Feasible s0 ∧
    (s0.buf.hot.stored = [] ∧ s0.buf.hot.scheduled = [] ∧ s0.buf.hot.finished = [] ∧
      s0.buf.cold.stored = []) ∧
    (s0.buf.size = [] ∧ s0.buf.hot.cur = s0.buf.hot.total ∧ s0.buf.cold.cur = s0.buf.cold.total) ∧
    s0.buf.cold.transfer = none ∧ s0.halted = false ∧ Sys.NoTierCfg s0 ∧
    s0.staticPlan = true ∧ (∀ o ∈ s0.obs, IsTopo o.wf) ∧ PlanOk env s0

/-- the clause "`Sys.serialBoundD` under the un-delayed hypothesis `C05_PlanDurOk`", DynamicSchedulingFromPlan -/
def C05_bound_dynamic_delay_durOk_statement : Prop :=
  ∀ (env : SimEnv) (s0 : Sys), C05_bound_plan_delay_hyps env s0 → s0.alg = .dynamic → C05_PlanDurOk env s0 →
    ∃ n, (ilSimSteps env n (SimState.start s0)).st.isFinished = true ∧
      (ilSimSteps env n (SimState.start s0)).st.crashed = none ∧
      C05_clock env s0 n ≤ ((Sys.serialBoundD env s0 : Nat) : Time)

/-- the same for GreedySchedulingFromPlan -/
def C05_bound_greedy_delay_durOk_statement : Prop :=
  ∀ (env : SimEnv) (s0 : Sys), C05_bound_plan_delay_hyps env s0 → s0.alg = .greedy → C05_PlanDurOk env s0 →
    ∃ n, (ilSimSteps env n (SimState.start s0)).st.isFinished = true ∧
      (ilSimSteps env n (SimState.start s0)).st.crashed = none ∧
      C05_clock env s0 n ≤ ((Sys.serialBoundD env s0 : Nat) : Time)

/-- **`C05_bound_plan_delay_counterexample_dynamic`.**  Configuration `boundP_cxW .dynamic` (one machine,
one observation, one node with comp = task_data = 0) with the environment `boundE_cxEnv` (plan row
`(node 0, machine 0, est 0, eft 1)`, delay table `1 ↦ 30`) meets every hypothesis and `C05_PlanDurOk`;
`Sys.serialBoundD` is 10; at every index at which its run is at `is_finished()` the clock is beyond it;
it first is there after 213 kernel steps with the clock at 33; the delayed plan bound is 39, the
un-delayed corrected plan bound 10. -/
theorem C05_bound_plan_delay_counterexample_dynamic :
    C05_bound_plan_delay_hyps boundE_cxEnv (boundP_cxW .dynamic) ∧ (boundP_cxW .dynamic).alg = .dynamic ∧
    C05_PlanDurOk boundE_cxEnv (boundP_cxW .dynamic) ∧
    Sys.serialBoundD boundE_cxEnv (boundP_cxW .dynamic) = 10 ∧
    (∀ n, (ilSimSteps boundE_cxEnv n (SimState.start (boundP_cxW .dynamic))).st.isFinished = true →
      ((Sys.serialBoundD boundE_cxEnv (boundP_cxW .dynamic) : Nat) : Time) <
        C05_clock boundE_cxEnv (boundP_cxW .dynamic) n) ∧
    (ilSimSteps boundE_cxEnv 213 (SimState.start (boundP_cxW .dynamic))).st.isFinished = true ∧
    C05_clock boundE_cxEnv (boundP_cxW .dynamic) 213 = 33 ∧
    C05_planSerialBoundD boundE_cxEnv (boundP_cxW .dynamic) = 39 ∧
    C05_planSerialBound boundE_cxEnv (boundP_cxW .dynamic) = 10 := by
  have N := boundE_cx_nc boundE_cxEnv 1 rfl (alg := .dynamic) (Or.inl rfl)
  obtain ⟨_, g2, g3, _⟩ := boundP_firstFin_spec _ _ _ 0 _ _ boundE_cx_first_dynamic
  refine ⟨⟨N.hw, N.feas, N.hb0, N.hfull, N.hct, N.hh0, N.h1, N.stat, N.topo, N.plan⟩, rfl,
    boundE_cx_durOk _, boundE_cx_numbers.1.1, ?_, ?_, g3.symm, boundE_cx_numbers.1.2.1,
    boundE_cx_numbers.1.2.2.2⟩
  · intro n hn
    rw [← simAt_eq_ilSimSteps] at hn
    have h1 := boundE_cx_exceeds_dynamic n hn
    rw [boundE_cx_numbers.1.1]
    show ((10 : Nat) : Time) < boundClock _ _ n
    have h2 : ((10 : Nat) : Time) < 33 := by decide
    grind
  · rw [← simAt_eq_ilSimSteps]; exact g2

/-- **`C05_bound_plan_delay_counterexample_greedy`.**  The same configuration under
GreedySchedulingFromPlan. -/
theorem C05_bound_plan_delay_counterexample_greedy :
    C05_bound_plan_delay_hyps boundE_cxEnv (boundP_cxW .greedy) ∧ (boundP_cxW .greedy).alg = .greedy ∧
    C05_PlanDurOk boundE_cxEnv (boundP_cxW .greedy) ∧
    Sys.serialBoundD boundE_cxEnv (boundP_cxW .greedy) = 10 ∧
    (∀ n, (ilSimSteps boundE_cxEnv n (SimState.start (boundP_cxW .greedy))).st.isFinished = true →
      ((Sys.serialBoundD boundE_cxEnv (boundP_cxW .greedy) : Nat) : Time) <
        C05_clock boundE_cxEnv (boundP_cxW .greedy) n) ∧
    (ilSimSteps boundE_cxEnv 213 (SimState.start (boundP_cxW .greedy))).st.isFinished = true ∧
    C05_clock boundE_cxEnv (boundP_cxW .greedy) 213 = 33 ∧
    C05_planSerialBoundD boundE_cxEnv (boundP_cxW .greedy) = 39 ∧
    C05_planSerialBound boundE_cxEnv (boundP_cxW .greedy) = 10 := by
  have N := boundE_cx_nc boundE_cxEnv 1 rfl (alg := .greedy) (Or.inr rfl)
  obtain ⟨_, g2, g3, _⟩ := boundP_firstFin_spec _ _ _ 0 _ _ boundE_cx_first_greedy
  refine ⟨⟨N.hw, N.feas, N.hb0, N.hfull, N.hct, N.hh0, N.h1, N.stat, N.topo, N.plan⟩, rfl,
    boundE_cx_durOk _, boundE_cx_numbers.2.1, ?_, ?_, g3.symm, boundE_cx_numbers.2.2.1,
    boundE_cx_numbers.2.2.2.2⟩
  · intro n hn
    rw [← simAt_eq_ilSimSteps] at hn
    have h1 := boundE_cx_exceeds_greedy n hn
    rw [boundE_cx_numbers.2.1]
    show ((10 : Nat) : Time) < boundClock _ _ n
    have h2 : ((10 : Nat) : Time) < 33 := by decide
    grind
  · rw [← simAt_eq_ilSimSteps]; exact g2

/-- **Under a delay model `C05_PlanDurOk` is not enough for `Sys.serialBoundD`**, DynamicSchedulingFromPlan:
the table is applied to the planned duration of a task without work. -/
theorem C05_bound_dynamic_delay_durOk_statement_false : ¬ C05_bound_dynamic_delay_durOk_statement := by
  intro h
  obtain ⟨hy, halg, hd, _, hex, _⟩ := C05_bound_plan_delay_counterexample_dynamic
  obtain ⟨n, h1, _, h4⟩ := h _ _ hy halg hd
  exact absurd h4 (Rat.not_le.mpr (hex n h1))

/-- **… nor for GreedySchedulingFromPlan.** -/
theorem C05_bound_greedy_delay_durOk_statement_false : ¬ C05_bound_greedy_delay_durOk_statement := by
  intro h
  obtain ⟨hy, halg, hd, _, hex, _⟩ := C05_bound_plan_delay_counterexample_greedy
  obtain ⟨n, h1, _, h4⟩ := h _ _ hy halg hd
  exact absurd h4 (Rat.not_le.mpr (hex n h1))

/-! ### (6) the timed stage lemmas with delayed durations (trajectory level) -/

section
variable {env : SimEnv} {s0 : Sys}

/-- **The accounting invariant, delayed, plan-following algorithms.**  At every index up to which the run
is not at `is_finished()` the time of the next event is within `latest + V_delayed` (`boundEP_V`:
admission `duration + 1`, hand-over 1, removal 1, task start `boundEP_WAT`). -/
theorem C05_plan_bound_invariant_delay_simpy (C : LivePCfg env s0) (hh0 : s0.halted = false) (n : Nat)
    (hnf : ∀ j, j ≤ n → (simAt env s0 j).st.isFinished = false) :
    boundTau env s0 n ≤ ((boundLatest s0 + boundEP_V env s0 (simAt env s0 n).st : Nat) : Time) :=
  boundEP_inv_all C (liveKernel_P C hh0) n hnf

/-- **Timed liveness of the workers, delayed, plan-following algorithms.**  Before `is_finished()`, every
live worker process is due, and so ends, by `latest + V_delayed - 1`: a task start pre-pays its delayed
occupancy (the largest total the environment can hand it on any machine, or can hand one of its planned
durations when it has no work) + its largest transfer wait + 1.  In particular a machine a ready task
is waiting for is released by then. -/
theorem C05_plan_worker_deadline_delay_simpy (C : LivePCfg env s0) (hh0 : s0.halted = false) (n : Nat)
    (hnf : ∀ j, j < n → (simAt env s0 j).st.isFinished = false)
    {q : Proc} (hq : q ∈ (simAt env s0 n).st.procs) (ha : q.alive = true) (hw : q.BoundWorker) :
    q.wake + 1 ≤ ((boundLatest s0 + boundEP_V env s0 (simAt env s0 n).st : Nat) : Time) :=
  (boundEP_asm C (liveKernel_P C hh0)).tl n
    (fun j hj => boundEP_inv_all C (liveKernel_P C hh0) j (fun i hi => hnf i (by omega))) q hq ha hw

/-- **The occupancy of a delayed body under a static plan**: in every state of the run, a body of a
workflow task that starts on machine `m` (nominal duration `dur` there: the runtime on `m`, or the
planned duration of its record when it has no work) occupies it for at most `boundEP_tw_R` of its task —
the charge of the bound — whatever number `k` of bodies started before. -/
theorem C05_plan_delayed_occupancy_simpy (C : LivePCfg env s0) (hh0 : s0.halted = false) (n : Nat)
    {t : Tid} {m : Mid} {r : TaskRec} {mm : Machine} {dur : Nat}
    (hr : (simAt env s0 n).st.task? t = some r) (hmm : (simAt env s0 n).st.machine? m = some mm)
    (hti : t.isIngest = false)
    (hd : nominalDuration r.flops r.data mm.cpu mm.bw r.duration = .ok dur) (k : Nat) :
    bodyWait (env.bodyTotal t k dur) + 1 ≤ boundEP_tw_R env s0 t :=
  boundEP_tw_occ_le (boundP_tw_ctx C (liveKernel_P C hh0) n) (boundE_tw_dur C (liveKernel_P C hh0) n)
    hr hmm hti hd k

/-- a record of a task without work carries the planned duration of a plan row naming its node, at every
index of the run -/
theorem C05_plan_zero_work_duration_simpy (C : LivePCfg env s0) (hh0 : s0.halted = false) (n : Nat)
    {r : TaskRec} {ob : Obs} {c node : Nat} (hr : (simAt env s0 n).st.task? (.wf ob.id c node) = some r)
    (h1 : r.flops = 0) (h2 : r.data = 0) :
    ∃ x ∈ env.rowsOf ob.id, x.1 = node ∧ r.duration = x.2.2.2 - x.2.2.1 :=
  boundE_tw_dur C (liveKernel_P C hh0) n _ r hr h1 h2 ob c node rfl

end

/-! ### the hypotheses are satisfiable with NON-EMPTY delay environments: non-vacuity of (2), (3) -/

/-- the hypotheses of the `…_partial` forms (3), those of (2) among them, hold of configuration
`boundP_cxW alg` (one node WITHOUT work) with the environment `boundE_okEnv` — delay table `1 ↦ 2, 0 ↦ 5`,
delay script `[3]`, plan row `(node 0, machine 0, est 0, eft 1)` — under either algorithm:
`C05_PlanDurOkD` holds non-trivially (the planned duration 1 is handed 2 ≤ max 1 5) -/
example : (C05_bound_plan_delay_hyps boundE_okEnv (boundP_cxW .dynamic) ∧ (boundP_cxW .dynamic).alg = .dynamic ∧
      C05_PlanDurOkD boundE_okEnv (boundP_cxW .dynamic)) ∧
    (C05_bound_plan_delay_hyps boundE_okEnv (boundP_cxW .greedy) ∧ (boundP_cxW .greedy).alg = .greedy ∧
      C05_PlanDurOkD boundE_okEnv (boundP_cxW .greedy)) ∧
    boundE_okEnv.delayTable ≠ [] ∧ boundE_okEnv.delayScript ≠ [] := by
  have N1 := boundE_cx_nc boundE_okEnv 1 rfl (alg := .dynamic) (Or.inl rfl)
  have N2 := boundE_cx_nc boundE_okEnv 1 rfl (alg := .greedy) (Or.inr rfl)
  exact ⟨⟨⟨N1.hw, N1.feas, N1.hb0, N1.hfull, N1.hct, N1.hh0, N1.h1, N1.stat, N1.topo, N1.plan⟩, rfl,
      boundE_ok_durOk _⟩,
    ⟨⟨N2.hw, N2.feas, N2.hb0, N2.hfull, N2.hct, N2.hh0, N2.h1, N2.stat, N2.topo, N2.plan⟩, rfl,
      boundE_ok_durOk _⟩, by decide, by decide⟩

/-- its runs: first at `is_finished()` after 45 kernel steps with the clock at 5, within
`C05_planSerialBoundD = 11` ≤ `Sys.serialBoundD = 14` -/
example : (ilSimSteps boundE_okEnv 45 (SimState.start (boundP_cxW .dynamic))).st.isFinished = true ∧
    C05_clock boundE_okEnv (boundP_cxW .dynamic) 45 = 5 ∧
    C05_planSerialBoundD boundE_okEnv (boundP_cxW .dynamic) = 11 ∧
    Sys.serialBoundD boundE_okEnv (boundP_cxW .dynamic) = 14 := by
  obtain ⟨_, g2, g3, _⟩ := boundP_firstFin_spec _ _ _ 0 _ _ boundE_ok_first.1
  rw [simAt_eq_ilSimSteps] at g2
  exact ⟨g2, g3.symm, boundE_ok_numbers.2.1, boundE_ok_numbers.1⟩

/-- … and of the two-observation configuration `boundP_nvW alg` (two machines of different speeds, two
workflows whose four tasks are ALL planned on the slow machine 0) with the plans of `boundP_nvEnv` and
the delay table `2 ↦ 20`, script `[3]` (`boundE_nvEnv`); every node carries work -/
example : (C05_bound_plan_delay_hyps boundE_nvEnv (boundP_nvW .dynamic) ∧ (boundP_nvW .dynamic).alg = .dynamic ∧
      C05_PlanDurOkD boundE_nvEnv (boundP_nvW .dynamic)) ∧
    (C05_bound_plan_delay_hyps boundE_nvEnv (boundP_nvW .greedy) ∧ (boundP_nvW .greedy).alg = .greedy ∧
      C05_PlanDurOkD boundE_nvEnv (boundP_nvW .greedy)) ∧
    boundE_nvEnv.delayTable ≠ [] ∧ boundE_nvEnv.delayScript ≠ [] := by
  have hd : ∀ alg, C05_PlanDurOkD boundE_nvEnv (boundP_nvW alg) := by
    intro alg
    apply C05_PlanDurOkD_of_work
    intro o ho n hn
    simp only [boundP_nvW, List.mem_cons, List.not_mem_nil, or_false] at ho
    rcases ho with rfl | rfl <;> (revert n hn; decide)
  exact ⟨⟨⟨boundP_nv_nc_dynamic.hw, boundP_nv_nc_dynamic.feas, boundP_nv_nc_dynamic.hb0, boundP_nv_nc_dynamic.hfull,
      boundP_nv_nc_dynamic.hct, boundP_nv_nc_dynamic.hh0, boundP_nv_nc_dynamic.h1, boundP_nv_nc_dynamic.stat,
      boundP_nv_nc_dynamic.topo, boundE_nv_planOk _⟩, rfl, hd _⟩,
    ⟨⟨boundP_nv_nc_greedy.hw, boundP_nv_nc_greedy.feas, boundP_nv_nc_greedy.hb0, boundP_nv_nc_greedy.hfull,
      boundP_nv_nc_greedy.hct, boundP_nv_nc_greedy.hh0, boundP_nv_nc_greedy.h1, boundP_nv_nc_greedy.stat,
      boundP_nv_nc_greedy.topo, boundE_nv_planOk _⟩, rfl, hd _⟩, by decide, by decide⟩

/-- the numbers on that configuration: un-delayed 43, delayed 85 (sharp 73) -/
example : Sys.serialBound (boundP_nvW .dynamic) = 43 ∧
    C05_planSerialBoundD boundE_nvEnv (boundP_nvW .dynamic) = 85 ∧
    Sys.serialBoundD boundE_nvEnv (boundP_nvW .dynamic) = 85 ∧
    C05_planSharpBoundD boundE_nvEnv (boundP_nvW .dynamic) = 73 := by decide

end Topsim
