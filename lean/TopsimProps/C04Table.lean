/-
  C04, last clause — "… and the task table it returns has exactly one row per
  executed task."

  Vocabulary.  `s.tasks` is the table of task records (`Task` objects), in creation
  order; `s.starts` the list of `do_work` activations (the executed tasks), in
  order; `s.cl.finished` the cluster's finished-task map (`_tasks['finished']`, a
  dict keyed by task: `False` when an ingest task begins, `True` when a task ends).
  `Simulation._generate_final_task_data()` returns one row per key of that map, read
  off the task object (`Sys.taskTableCl`, TopsimProofs/TaskTable5.lean);
  `Sys.taskTable` is the same table read off the record table, one row per task
  record.  A row (`TaskRow`): index = task id, planned start / finish shifted by the
  workflow offset, recorded start `ast`, recorded finish `aft`, the offset, the
  observation.

  `ReachOk s0 s`: `s` is a state of a run from the configuration `s0`, any block
  order, any oracle inputs.  `ReachPl s0 s` (TopsimProofs/TaskTable3.lean): `ReachOk`
  in which, when the static planner is configured, the row list of every planning
  step names each node once (`Oracle.rowsOk`; in the code the rows are the entries of
  SHADOW's `task_allocations` dict, one per task).  With BatchPlanning
  (`s0.staticPlan = false`) `ReachPl` is `ReachOk` (`ReachOk.toPl`).
-/
import TopsimProofs.TaskTable5
import TopsimProps.C04
import TopsimProps.C04Witness
import TopsimProps.C06Traj

namespace Topsim
namespace Sys

/-! ### (A1) the ids of the record table are distinct -/

/-- **No two task records share an id** — every reachable state (crashed or not, any algorithm),
either planner. -/
-- Hypotheses.  `hb0`: the initial buffer holds no observation; the proof uses that each observation
-- is handed to the scheduler (hence planned) at most once.  `htopo`: the topological list of every
-- configured workflow names each node once.  `WFConfig` does NOT say this: it constrains machines,
-- observations and freshness, nothing about workflows; `topo` stands for the result of
-- `networkx.topological_sort`, which never repeats a node (`IsTopo.nodup`, checked by the
-- correspondence harness on every graph).  Without `htopo` the statement is false
-- (`C04_record_ids_unique_statement_false`).
theorem C04_record_ids_unique_pl_traj (s0 s : Sys) (hw : WFConfig s0)
    (hb0 : s0.buf.hot.stored = [] ∧ s0.buf.hot.scheduled = [] ∧ s0.buf.hot.finished = [] ∧
      s0.buf.cold.stored = [])
    (htopo : ∀ o ∈ s0.obs, o.wf.topo.Nodup) (h : ReachPl s0 s) : (s.tasks.map (·.id)).Nodup := by
  have hbuf : bufList s0.buf = [] := by
    obtain ⟨h1, h2, h3, h4⟩ := hb0
    simp [bufList, h1, h2, h3, h4]
  exact reachPl_ids_nodup s0 s hw hbuf htopo h

/-- … with BatchPlanning, along `ReachOk` -/
theorem C04_record_ids_unique_traj (s0 s : Sys) (hw : WFConfig s0)
    (hb0 : s0.buf.hot.stored = [] ∧ s0.buf.hot.scheduled = [] ∧ s0.buf.hot.finished = [] ∧
      s0.buf.cold.stored = [])
    (htopo : ∀ o ∈ s0.obs, o.wf.topo.Nodup) (hstat : s0.staticPlan = false) (h : ReachOk s0 s) :
    (s.tasks.map (·.id)).Nodup :=
  C04_record_ids_unique_pl_traj s0 s hw hb0 htopo (h.toPl hstat)

/-- where records come from, every `ReachOk` state: a workflow task record belongs to an observation
that has a plan; an ingest task record `o_ingest_ti` to an observation whose ingest provisioner
(demand `d`) has run, with `i < d`; there is no other kind of record; every started task has a
record -/
theorem C04_record_origin_traj (s0 s : Sys) (hw : WFConfig s0) (h : ReachOk s0 s) :
    (∀ r ∈ s.tasks, ∀ o c n, r.id = Tid.wf o c n → ∃ pl ∈ s.plans, pl.obs = o) ∧
    (∀ r ∈ s.tasks, ∀ o i, r.id = Tid.ingest o i →
      ∃ p ∈ s.procs, ∃ d, p.k = .provIngest o d ∧ 1 ≤ p.pc ∧ i < d) ∧
    (∀ r ∈ s.tasks, ∀ n, r.id ≠ Tid.raw n) ∧
    (∀ t ∈ s.starts, ∃ r ∈ s.tasks, r.id = t) :=
  have hri := reachOk_reci s0 s hw h
  ⟨hri.wfPlan, hri.ingProv, hri.noRaw, hri.startsRec⟩

/-! ### (A2) at the end the records are the started tasks -/

/-- **Every executed task has a record and every record was executed, exactly once.**  In a finished
run (`is_finished()`) that has not crashed, under the hypotheses of `C04_all_workflow_tasks_ran`:
the list of started tasks is a permutation of the list of record ids, and neither has a
repetition. -/
theorem C04_records_are_started_pl_traj (s0 s : Sys) (hw : WFConfig s0)
    (hb0 : s0.buf.hot.stored = [] ∧ s0.buf.hot.scheduled = [] ∧ s0.buf.hot.finished = [] ∧
      s0.buf.cold.stored = [])
    (hsz0 : s0.buf.size = [] ∧ s0.buf.hot.cur ≤ s0.buf.hot.total ∧ s0.buf.cold.cur ≤ s0.buf.cold.total)
    (htopo : ∀ o ∈ s0.obs, o.wf.topo.Nodup) (hrate : ∀ o ∈ s0.obs, 0 < o.rate)
    (h : ReachPl s0 s) (hf : s.isFinished = true) (hc : s.crashed = none) :
    s.starts.Perm (s.tasks.map (·.id)) ∧ s.starts.Nodup ∧ (s.tasks.map (·.id)).Nodup := by
  have hbuf : bufList s0.buf = [] := by
    obtain ⟨h1, h2, h3, h4⟩ := hb0
    simp [bufList, h1, h2, h3, h4]
  have hok := h.toOk
  have hnd := reachPl_ids_nodup s0 s hw hbuf htopo h
  have hsn := C04_starts_once s0 s hw hok
  refine ⟨?_, hsn, hnd⟩
  rw [List.perm_ext_iff_of_nodup hsn hnd]
  intro t
  constructor
  · intro ht
    obtain ⟨r, hr, e⟩ := (reachOk_reci s0 s hw hok).startsRec t ht
    exact List.mem_map.mpr ⟨r, hr, e⟩
  · intro ht
    obtain ⟨r, hr, e⟩ := List.mem_map.mp ht
    rw [← e]
    exact finished_ids_started s0 s hw hbuf hsz0 hrate hok hf hc r hr

theorem C04_records_are_started_traj (s0 s : Sys) (hw : WFConfig s0)
    (hb0 : s0.buf.hot.stored = [] ∧ s0.buf.hot.scheduled = [] ∧ s0.buf.hot.finished = [] ∧
      s0.buf.cold.stored = [])
    (hsz0 : s0.buf.size = [] ∧ s0.buf.hot.cur ≤ s0.buf.hot.total ∧ s0.buf.cold.cur ≤ s0.buf.cold.total)
    (htopo : ∀ o ∈ s0.obs, o.wf.topo.Nodup) (hstat : s0.staticPlan = false) (hrate : ∀ o ∈ s0.obs, 0 < o.rate)
    (h : ReachOk s0 s) (hf : s.isFinished = true) (hc : s.crashed = none) :
    s.starts.Perm (s.tasks.map (·.id)) ∧ s.starts.Nodup ∧ (s.tasks.map (·.id)).Nodup :=
  C04_records_are_started_pl_traj s0 s hw hb0 hsz0 htopo hrate (h.toPl hstat) hf hc

/-! ### (A3) the task table -/

/-- **The task table has exactly one row per executed task.**  In a finished run that has not
crashed (hypotheses as above): the ids of the rows are a permutation of the started tasks, no id
occurs twice, there are as many rows as started tasks, and every row carries a recorded start `a`
and a recorded finish `f = a + max 1 total` — `total` being the duration the task's body was handed
(`C06_recorded_span_traj`) — so `f` is at least one timestep after `a`. -/
theorem C04_task_table_one_row_per_executed_task_pl (s0 s : Sys) (hw : WFConfig s0)
    (hb0 : s0.buf.hot.stored = [] ∧ s0.buf.hot.scheduled = [] ∧ s0.buf.hot.finished = [] ∧
      s0.buf.cold.stored = [])
    (hsz0 : s0.buf.size = [] ∧ s0.buf.hot.cur ≤ s0.buf.hot.total ∧ s0.buf.cold.cur ≤ s0.buf.cold.total)
    (htopo : ∀ o ∈ s0.obs, o.wf.topo.Nodup) (hrate : ∀ o ∈ s0.obs, 0 < o.rate)
    (h : ReachPl s0 s) (hf : s.isFinished = true) (hc : s.crashed = none) :
    (s.taskTable.map (·.id)).Perm s.starts ∧ (s.taskTable.map (·.id)).Nodup ∧
    s.taskTable.length = s.starts.length ∧
    ∀ row ∈ s.taskTable, ∃ a f total, row.ast = some a ∧ row.aft = some f ∧
      f = a + ((max 1 total : Nat) : Time) ∧ a + 1 ≤ f := by
  have hbuf : bufList s0.buf = [] := by
    obtain ⟨h1, h2, h3, h4⟩ := hb0
    simp [bufList, h1, h2, h3, h4]
  have hok := h.toOk
  obtain ⟨hperm, _, hnd⟩ := C04_records_are_started_pl_traj s0 s hw hb0 hsz0 htopo hrate h hf hc
  have hst := finished_ids_started s0 s hw hbuf hsz0 hrate hok hf hc
  refine ⟨by rw [taskTable_ids]; exact hperm.symm, by rw [taskTable_ids]; exact hnd, ?_, ?_⟩
  · have := hperm.length_eq
    rw [List.length_map] at this
    unfold taskTable
    rw [List.length_map]; exact this.symm
  · intro row hrow
    obtain ⟨r, hr, rfl⟩ := List.mem_map.mp hrow
    obtain ⟨a, tot, g1, g2, _⟩ := finished_recs_stamped s0 s hw hok hf hc hnd hst r hr
    obtain ⟨a', total, k1, k2, k3⟩ := C06_recorded_span_any_oracle s0 s hw hok r.id r _
      (task?_of_mem_nodup hnd hr) g2
    exact ⟨a', _, total, k1, g2, k2, k3⟩

theorem C04_task_table_one_row_per_executed_task (s0 s : Sys) (hw : WFConfig s0)
    (hb0 : s0.buf.hot.stored = [] ∧ s0.buf.hot.scheduled = [] ∧ s0.buf.hot.finished = [] ∧
      s0.buf.cold.stored = [])
    (hsz0 : s0.buf.size = [] ∧ s0.buf.hot.cur ≤ s0.buf.hot.total ∧ s0.buf.cold.cur ≤ s0.buf.cold.total)
    (htopo : ∀ o ∈ s0.obs, o.wf.topo.Nodup) (hstat : s0.staticPlan = false) (hrate : ∀ o ∈ s0.obs, 0 < o.rate)
    (h : ReachOk s0 s) (hf : s.isFinished = true) (hc : s.crashed = none) :
    (s.taskTable.map (·.id)).Perm s.starts ∧ (s.taskTable.map (·.id)).Nodup ∧
    s.taskTable.length = s.starts.length ∧
    ∀ row ∈ s.taskTable, ∃ a f total, row.ast = some a ∧ row.aft = some f ∧
      f = a + ((max 1 total : Nat) : Time) ∧ a + 1 ≤ f :=
  C04_task_table_one_row_per_executed_task_pl s0 s hw hb0 hsz0 htopo hrate (h.toPl hstat) hf hc

/-- **The table as the code computes it** (one row per key of the cluster's finished-task map).
With a shipped algorithm, in a finished run that has not crashed: the keys of the finished-task map
are exactly the started tasks, each once (no hypothesis on the buffer or the workflows is needed for
this part); and, under the hypotheses above, the table built from those keys has the same rows as
the table built from the records. -/
theorem C04_finished_map_keys_are_started (s0 s : Sys) (hw : WFConfig s0) (ha : s0.alg ≠ .oracle)
    (h : ReachOk s0 s) (hf : s.isFinished = true) (hc : s.crashed = none) :
    (dictKeys s.cl.finished).Perm s.starts ∧ (dictKeys s.cl.finished).Nodup :=
  ⟨finished_keys_perm_starts s0 s hw ha h hf hc, (reach_finKeys hw ha h.toReach).1⟩

theorem C04_task_table_as_computed_pl (s0 s : Sys) (hw : WFConfig s0)
    (hb0 : s0.buf.hot.stored = [] ∧ s0.buf.hot.scheduled = [] ∧ s0.buf.hot.finished = [] ∧
      s0.buf.cold.stored = [])
    (hsz0 : s0.buf.size = [] ∧ s0.buf.hot.cur ≤ s0.buf.hot.total ∧ s0.buf.cold.cur ≤ s0.buf.cold.total)
    (htopo : ∀ o ∈ s0.obs, o.wf.topo.Nodup) (hrate : ∀ o ∈ s0.obs, 0 < o.rate) (ha : s0.alg ≠ .oracle)
    (h : ReachPl s0 s) (hf : s.isFinished = true) (hc : s.crashed = none) :
    s.taskTableCl.Perm s.taskTable ∧ (s.taskTableCl.map (·.id)).Perm s.starts := by
  obtain ⟨hperm, _, hnd⟩ := C04_records_are_started_pl_traj s0 s hw hb0 hsz0 htopo hrate h hf hc
  have hk := finished_keys_perm_starts s0 s hw ha h.toOk hf hc
  have hp := taskTableCl_perm s hnd (hk.trans hperm)
  refine ⟨hp, ?_⟩
  refine (hp.map _).trans ?_
  rw [taskTable_ids]
  exact hperm.symm

/-! ### (A4) the simulator -/

/-- the record ids are distinct in every state of an uninterrupted run of the simulator, when its
static plans (if any) name each node once -/
theorem C04_record_ids_unique_simpy (env : SimEnv) (henv : env.rowsOk) (s0 : Sys) (hw : WFConfig s0)
    (hb0 : s0.buf.hot.stored = [] ∧ s0.buf.hot.scheduled = [] ∧ s0.buf.hot.finished = [] ∧
      s0.buf.cold.stored = [])
    (htopo : ∀ o ∈ s0.obs, o.wf.topo.Nodup) (k : SimState) (h : SimRun env s0 k) :
    (k.st.tasks.map (·.id)).Nodup :=
  l3_transfer_pl env henv s0 hw (fun s => (s.tasks.map (·.id)).Nodup)
    (fun s hs => C04_record_ids_unique_pl_traj s0 s hw hb0 htopo hs) (by intro _ h; exact h) k h

theorem C04_records_are_started_simpy (env : SimEnv) (henv : env.rowsOk) (s0 : Sys) (hw : WFConfig s0)
    (hb0 : s0.buf.hot.stored = [] ∧ s0.buf.hot.scheduled = [] ∧ s0.buf.hot.finished = [] ∧
      s0.buf.cold.stored = [])
    (hsz0 : s0.buf.size = [] ∧ s0.buf.hot.cur ≤ s0.buf.hot.total ∧ s0.buf.cold.cur ≤ s0.buf.cold.total)
    (htopo : ∀ o ∈ s0.obs, o.wf.topo.Nodup) (hrate : ∀ o ∈ s0.obs, 0 < o.rate)
    (k : SimState) (h : SimRun env s0 k) (hf : k.st.isFinished = true) (hc : k.st.crashed = none) :
    k.st.starts.Perm (k.st.tasks.map (·.id)) ∧ k.st.starts.Nodup ∧ (k.st.tasks.map (·.id)).Nodup :=
  l3_transfer_pl env henv s0 hw
    (fun s => s.isFinished = true → s.crashed = none →
      s.starts.Perm (s.tasks.map (·.id)) ∧ s.starts.Nodup ∧ (s.tasks.map (·.id)).Nodup)
    (fun s hs hf hc => C04_records_are_started_pl_traj s0 s hw hb0 hsz0 htopo hrate hs hf hc)
    (by intro _ h; exact h) k h hf hc

/-- C04 along the simulator's runs: the task table of a finished run that did not raise has exactly
one row per executed task, each with both stamps, `aft = ast + max 1 total`. -/
theorem C04_task_table_one_row_per_executed_task_simpy (env : SimEnv) (henv : env.rowsOk) (s0 : Sys)
    (hw : WFConfig s0)
    (hb0 : s0.buf.hot.stored = [] ∧ s0.buf.hot.scheduled = [] ∧ s0.buf.hot.finished = [] ∧
      s0.buf.cold.stored = [])
    (hsz0 : s0.buf.size = [] ∧ s0.buf.hot.cur ≤ s0.buf.hot.total ∧ s0.buf.cold.cur ≤ s0.buf.cold.total)
    (htopo : ∀ o ∈ s0.obs, o.wf.topo.Nodup) (hrate : ∀ o ∈ s0.obs, 0 < o.rate)
    (k : SimState) (h : SimRun env s0 k) (hf : k.st.isFinished = true) (hc : k.st.crashed = none) :
    (k.st.taskTable.map (·.id)).Perm k.st.starts ∧ (k.st.taskTable.map (·.id)).Nodup ∧
    k.st.taskTable.length = k.st.starts.length ∧
    ∀ row ∈ k.st.taskTable, ∃ a f total, row.ast = some a ∧ row.aft = some f ∧
      f = a + ((max 1 total : Nat) : Time) ∧ a + 1 ≤ f :=
  l3_transfer_pl env henv s0 hw
    (fun s => s.isFinished = true → s.crashed = none →
      (s.taskTable.map (·.id)).Perm s.starts ∧ (s.taskTable.map (·.id)).Nodup ∧
      s.taskTable.length = s.starts.length ∧
      ∀ row ∈ s.taskTable, ∃ a f total, row.ast = some a ∧ row.aft = some f ∧
        f = a + ((max 1 total : Nat) : Time) ∧ a + 1 ≤ f)
    (fun s hs hf hc => C04_task_table_one_row_per_executed_task_pl s0 s hw hb0 hsz0 htopo hrate hs hf hc)
    (by intro _ h; exact h) k h hf hc

theorem C04_task_table_as_computed_simpy (env : SimEnv) (henv : env.rowsOk) (s0 : Sys)
    (hw : WFConfig s0)
    (hb0 : s0.buf.hot.stored = [] ∧ s0.buf.hot.scheduled = [] ∧ s0.buf.hot.finished = [] ∧
      s0.buf.cold.stored = [])
    (hsz0 : s0.buf.size = [] ∧ s0.buf.hot.cur ≤ s0.buf.hot.total ∧ s0.buf.cold.cur ≤ s0.buf.cold.total)
    (htopo : ∀ o ∈ s0.obs, o.wf.topo.Nodup) (hrate : ∀ o ∈ s0.obs, 0 < o.rate) (ha : s0.alg ≠ .oracle)
    (k : SimState) (h : SimRun env s0 k) (hf : k.st.isFinished = true) (hc : k.st.crashed = none) :
    k.st.taskTableCl.Perm k.st.taskTable ∧ (k.st.taskTableCl.map (·.id)).Perm k.st.starts :=
  l3_transfer_pl env henv s0 hw
    (fun s => s.isFinished = true → s.crashed = none →
      s.taskTableCl.Perm s.taskTable ∧ (s.taskTableCl.map (·.id)).Perm s.starts)
    (fun s hs hf hc => C04_task_table_as_computed_pl s0 s hw hb0 hsz0 htopo hrate ha hs hf hc)
    (by intro _ h; exact h) k h hf hc

/-- the same through `L3_transfer`, for BatchPlanning and any `env` -/
theorem C04_task_table_one_row_per_executed_task_simpy_batch (env : SimEnv) (s0 : Sys) (hw : WFConfig s0)
    (hb0 : s0.buf.hot.stored = [] ∧ s0.buf.hot.scheduled = [] ∧ s0.buf.hot.finished = [] ∧
      s0.buf.cold.stored = [])
    (hsz0 : s0.buf.size = [] ∧ s0.buf.hot.cur ≤ s0.buf.hot.total ∧ s0.buf.cold.cur ≤ s0.buf.cold.total)
    (htopo : ∀ o ∈ s0.obs, o.wf.topo.Nodup) (hstat : s0.staticPlan = false) (hrate : ∀ o ∈ s0.obs, 0 < o.rate)
    (k : SimState) (h : SimRun env s0 k) (hf : k.st.isFinished = true) (hc : k.st.crashed = none) :
    (k.st.taskTable.map (·.id)).Perm k.st.starts ∧ (k.st.taskTable.map (·.id)).Nodup ∧
    k.st.taskTable.length = k.st.starts.length ∧
    ∀ row ∈ k.st.taskTable, ∃ a f total, row.ast = some a ∧ row.aft = some f ∧
      f = a + ((max 1 total : Nat) : Time) ∧ a + 1 ≤ f :=
  L3_transfer env s0 hw
    (fun s => s.isFinished = true → s.crashed = none →
      (s.taskTable.map (·.id)).Perm s.starts ∧ (s.taskTable.map (·.id)).Nodup ∧
      s.taskTable.length = s.starts.length ∧
      ∀ row ∈ s.taskTable, ∃ a f total, row.ast = some a ∧ row.aft = some f ∧
        f = a + ((max 1 total : Nat) : Time) ∧ a + 1 ≤ f)
    (fun s hs hf hc => C04_task_table_one_row_per_executed_task s0 s hw hb0 hsz0 htopo hstat hrate hs hf hc)
    (by intro _ h; exact h) k h hf hc

theorem C04_record_ids_unique_simpy_batch (env : SimEnv) (s0 : Sys) (hw : WFConfig s0)
    (hb0 : s0.buf.hot.stored = [] ∧ s0.buf.hot.scheduled = [] ∧ s0.buf.hot.finished = [] ∧
      s0.buf.cold.stored = [])
    (htopo : ∀ o ∈ s0.obs, o.wf.topo.Nodup) (hstat : s0.staticPlan = false) (k : SimState)
    (h : SimRun env s0 k) : (k.st.tasks.map (·.id)).Nodup :=
  L3_transfer env s0 hw (fun s => (s.tasks.map (·.id)).Nodup)
    (fun s hs => C04_record_ids_unique_traj s0 s hw hb0 htopo hstat hs) (by intro _ h; exact h) k h

/-- the simulator without static plans satisfies the side condition -/
theorem C04_no_static_plans_rowsOk : ({} : SimEnv).rowsOk := by
  intro x hx; simp at hx

/-! ### what happens when a topological list names a node twice -/

/-- (A1) without the hypothesis on the topological lists — FALSE -/
def C04_record_ids_unique_statement : Prop :=
  ∀ (s0 s : Sys), WFConfig s0 →
    (s0.buf.hot.stored = [] ∧ s0.buf.hot.scheduled = [] ∧ s0.buf.hot.finished = [] ∧ s0.buf.cold.stored = []) →
    s0.staticPlan = false → ReachOk s0 s → (s.tasks.map (·.id)).Nodup

/-- `c04W1` with the one-node workflow whose topological list is `[0, 0]` -/
def c04ObsDup : Obs :=
  { id := 0, est := 0, duration := 1, demand := 1, rate := 1, ingestDemand := 1,
    wf := ⟨[(0, 2, 0)], [], [0, 0]⟩ }

def c04Wdup : Sys :=
  { machines := [⟨0, 1, 1⟩], totalArrays := 1, maxIngest := 1, alg := .queue,
    cl := Cluster.init [0], buf := Buffer.init 100 10 100 10, obs := [c04ObsDup] }

theorem c04Wdup_wf : WFConfig c04Wdup := by
  refine ⟨by decide, rfl, by decide, ?_, ⟨rfl, rfl, rfl, rfl, rfl, rfl, rfl, rfl, rfl, rfl, rfl, rfl, rfl,
    rfl, rfl, rfl, rfl⟩⟩
  intro o ho
  simp only [c04Wdup, List.mem_cons, List.not_mem_nil, or_false] at ho
  subst ho
  exact ⟨rfl, rfl, by decide, by decide⟩

/-- the simulator on `c04Wdup`, every event before t = 8: the run is finished, has not crashed; the
record table holds TWO records with the id `0_1_0` (rewritten together by every block: same stamps);
one body ran; the record-based table has three rows for two executed tasks, the table keyed by the
finished-task map has two keys -/
theorem c04Wdup_chk :
    ((witRun c04Wdup 8 400).st.isFinished && decide ((witRun c04Wdup 8 400).st.crashed = none) &&
      !(witRun c04Wdup 8 400).st.halted &&
      decide ((witRun c04Wdup 8 400).st.tasks.map (fun r => (r.id, r.status, r.ast, r.aft)) =
        [(.ingest 0 0, .finished, some 0, some 1), (.wf 0 1 0, .finished, some 2, some 4),
         (.wf 0 1 0, .finished, some 2, some 4)]) &&
      decide ((witRun c04Wdup 8 400).st.starts = [.ingest 0 0, .wf 0 1 0]) &&
      decide (dictKeys (witRun c04Wdup 8 400).st.cl.finished = [.ingest 0 0, .wf 0 1 0]) &&
      decide ((witRun c04Wdup 8 400).st.taskTable.length = 3) &&
      decide ((witRun c04Wdup 8 400).st.taskTableCl.length = 2)) = true := by
  decide +kernel

theorem C04_record_ids_unique_statement_false : ¬ C04_record_ids_unique_statement := by
  intro hst
  have h := c04Wdup_chk
  simp only [Bool.and_eq_true, Bool.not_eq_true', decide_eq_true_eq] at h
  obtain ⟨⟨⟨⟨⟨⟨⟨_, _⟩, h3⟩, h4⟩, _⟩, _⟩, _⟩, _⟩ := h
  have hnd := hst c04Wdup _ c04Wdup_wf ⟨rfl, rfl, rfl, rfl⟩ rfl (witRun_reachOk c04Wdup_wf 8 400 h3)
  have hids : (witRun c04Wdup 8 400).st.tasks.map (·.id) = [.ingest 0 0, .wf 0 1 0, .wf 0 1 0] := by
    have := congrArg (List.map (fun x : Tid × TStatus × Option Time × Option Time => x.1)) h4
    simpa [List.map_map, Function.comp_def] using this
  rw [hids] at hnd
  exact absurd hnd (by decide)

/-- (A1) for the static planner under plain `ReachOk` (the oracle of a planning step may hand ANY row
list) — FALSE: the side condition `Oracle.rowsOk` of `ReachPl` is needed -/
def C04_record_ids_unique_static_statement : Prop :=
  ∀ (s0 s : Sys), WFConfig s0 →
    (s0.buf.hot.stored = [] ∧ s0.buf.hot.scheduled = [] ∧ s0.buf.hot.finished = [] ∧ s0.buf.cold.stored = []) →
    (∀ o ∈ s0.obs, o.wf.topo.Nodup) → ReachOk s0 s → (s.tasks.map (·.id)).Nodup

/-- `c04W1` with the static planner -/
def c04Wstat : Sys := { c04W1 with staticPlan := true }

/-- a static plan that lists node 0 twice -/
def c04RowsTwice : Oracle := { plan := [(0, 0, 0, 2), (0, 0, 0, 2)] }

/-- creation order up to the scheduler loop's planning block at t = 1 -/
def c04SchedStat : List (Nat × Oracle) :=
  [0, 1, 2, 3, 4, 5, 6, 7, 8, 9, 9, 0, 1, 2, 3].map (fun pid => (pid, c04RowsTwice))

theorem c04Wstat_wf : WFConfig c04Wstat := by
  refine ⟨by decide, rfl, by decide, ?_, ⟨rfl, rfl, rfl, rfl, rfl, rfl, rfl, rfl, rfl, rfl, rfl, rfl, rfl,
    rfl, rfl, rfl, rfl⟩⟩
  intro o ho
  simp only [c04Wstat, c04W1, List.mem_cons, List.not_mem_nil, or_false] at ho
  subst ho
  exact ⟨rfl, rfl, by decide, by decide⟩

theorem c04SchedStat_chk :
    (precEnabledAllO c04SchedStat c04Wstat.start &&
      decide ((precRunO c04SchedStat c04Wstat.start).tasks.map (·.id) = [.ingest 0 0, .wf 0 1 0, .wf 0 1 0]) &&
      decide ((precRunO c04SchedStat c04Wstat.start).crashed = none)) = true := by
  decide +kernel

theorem C04_record_ids_unique_static_statement_false : ¬ C04_record_ids_unique_static_statement := by
  intro hst
  have h := c04SchedStat_chk
  simp only [Bool.and_eq_true, decide_eq_true_eq] at h
  obtain ⟨⟨h1, h2⟩, _⟩ := h
  have hr : ReachOk c04Wstat (precRunO c04SchedStat c04Wstat.start) :=
    (prec_reach_runO c04SchedStat _ Reach.start h1).toOk (by simp [c04Wstat, c04W1])
  have hnd := hst c04Wstat _ c04Wstat_wf ⟨rfl, rfl, rfl, rfl⟩
    (by
      intro o ho
      simp only [c04Wstat, c04W1, List.mem_cons, List.not_mem_nil, or_false] at ho
      subst ho
      decide) hr
  rw [h2] at hnd
  exact absurd hnd (by decide)

/-! ### non-vacuity -/

theorem c04W1_topo : ∀ o ∈ c04W1.obs, o.wf.topo.Nodup := by
  intro o ho
  simp only [c04W1, List.mem_cons, List.not_mem_nil, or_false] at ho
  subst ho
  decide

/-- `c04W1` (workflow chain `0 → 1`, queue algorithm, BatchPlanning): the finished run `c04S1`
satisfies every hypothesis of `C04_task_table_one_row_per_executed_task`; the table has 3 rows, the
3 started tasks, with the stamps (0, 1), (2, 4), (5, 6); the table keyed by the finished-task map is
the same table. -/
theorem c04S1_table_chk :
    (decide (c04S1.taskTable.map (fun x => (x.id, x.ast, x.aft, x.offset, x.obs)) =
        [(.ingest 0 0, some 0, some 1, 0, some 0), (.wf 0 1 0, some 2, some 4, 1, some 0),
         (.wf 0 1 1, some 5, some 6, 1, some 0)]) &&
      decide (c04S1.taskTableCl = c04S1.taskTable)) = true := by
  decide +kernel

theorem C04_witness_task_table :
    ∃ s : Sys, C04Hyps c04W1 s ∧ (∀ o ∈ c04W1.obs, o.wf.topo.Nodup) ∧ c04W1.staticPlan = false ∧
      ((s.taskTable.map (·.id)).Perm s.starts ∧ (s.taskTable.map (·.id)).Nodup ∧
        s.taskTable.length = s.starts.length ∧
        ∀ row ∈ s.taskTable, ∃ a f total, row.ast = some a ∧ row.aft = some f ∧
          f = a + ((max 1 total : Nat) : Time) ∧ a + 1 ≤ f) ∧
      (s.taskTableCl.Perm s.taskTable ∧ (s.taskTableCl.map (·.id)).Perm s.starts) ∧
      s.starts = [.ingest 0 0, .wf 0 1 0, .wf 0 1 1] ∧
      s.taskTable.map (fun x => (x.id, x.ast, x.aft, x.offset, x.obs)) =
        [(.ingest 0 0, some 0, some 1, 0, some 0), (.wf 0 1 0, some 2, some 4, 1, some 0),
         (.wf 0 1 1, some 5, some 6, 1, some 0)] := by
  obtain ⟨hw, hb0, hsz0, hr, hf, hc, hrate, ha⟩ := c04W1_hyps
  have h := c04S1_table_chk
  simp only [Bool.and_eq_true, decide_eq_true_eq] at h
  exact ⟨c04S1, c04W1_hyps, c04W1_topo, rfl,
    C04_task_table_one_row_per_executed_task c04W1 c04S1 hw hb0 hsz0 c04W1_topo rfl hrate hr hf hc,
    C04_task_table_as_computed_pl c04W1 c04S1 hw hb0 hsz0 c04W1_topo hrate ha (hr.toPl rfl) hf hc,
    (witChk_spec c04S1_chk).2.2.2.2.2.1, h.1⟩

/-- the same along the simulator's runs -/
example : ∃ k : SimState, SimRun {} c04W1 k ∧ k.st.isFinished = true ∧ k.st.crashed = none ∧
    (k.st.taskTable.map (·.id)).Perm k.st.starts ∧ k.st.taskTable.length = 3 := by
  have h := witChk_spec c04S1_chk
  obtain ⟨g1, _, g3, _⟩ := C04_task_table_one_row_per_executed_task_simpy {} C04_no_static_plans_rowsOk c04W1
    c04W1_wf c04W1_buf c04W1_size c04W1_topo c04W1_rate _ (witRun_simRun c04W1 8 200) h.1 h.2.1
  refine ⟨witRun c04W1 8 200, witRun_simRun _ _ _, h.1, h.2.1, g1, ?_⟩
  rw [g3]
  show c04S1.starts.length = 3
  rw [h.2.2.2.2.2.1]; rfl

end Sys
end Topsim
