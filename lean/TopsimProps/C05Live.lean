/-
  C05, liveness — on the deterministic simulator (L3, SimPy's own (time, priority, insertion id)
  order), for the simplest shipped algorithm (QueueProcessing, BatchPlanning).

  Vocabulary.
  * `simAt env s0 n` / `ilSimSteps env n (SimState.start s0)`: the kernel state after `n` kernel
    steps (`Environment.step()`) from `Simulation.start()`; `simAt_eq_ilSimSteps` ties the two.
  * `NoRaise env s0`: no block of the run raises (`crashed = none` at every index).
  * H1 = `Sys.NoTierCfg s0`: 5 · Σ_obs rate · duration ≤ 3 · hot.total — the data of ALL observations
    together stays within the 0.6 tiering threshold of the hot buffer.  It excludes K1a (IndexError
    in the buffer loop) and K1b (an observation left in the cold tier for ever): with it the hot
    buffer is never over its threshold (`C05_no_tiering_simpy`), no tier move is ever started and the
    cold tier is never touched (`C05_no_tier_process_simpy`).
  * H3 (rate > 0, duration ≥ 1) is part of `Sys.Feasible` / `Sys.WFConfig`.
  * H4 = `∀ o ∈ s0.obs, IsTopo o.wf` (C14: `topo` lists the nodes once and every edge goes forward):
    needed — a cyclic workflow, or an edge out of a node that is no task, hangs the model silently.
  * H2 = `Sys.OneAdmission s0`: two different observations together exceed the telescope's arrays
    or the ingest-machine limit, so one block of the telescope's loop admits at most one (the second
    visit sees the arrays / the ingest counter taken by the first).  A static condition; before the
    repair F14 it was what excluded K2 (pairwise distinct planned starts did NOT).  F14: the repaired
    admission test counts the machines already promised in the same pass, K2 is unreachable on the
    simulator's runs (`C08_no_provisioning_failure_simpy`, TopsimProps/C08Promised.lean) and H2 is no
    longer needed: `C05_no_raise_queue_simpy_noH2`, `C05_terminates_queue_simpy_noH2`.  The
    theorems with H2 are kept verbatim (they follow).  `C05_K2_repaired_witness`: a configuration
    violating H2 that raised before F14 and now runs to `is_finished()`.
  * `s0.halted = false`, `s0.buf.cold.transfer = none`: `WFConfig` says nothing of these two fields of
    the initial state; with `halted = true` the run does not start, with a cold transfer slot taken
    the admission test `ColdBuffer.has_capacity_for` can fail for ever.

  What is proved.
  (1) `C05_time_diverges_simpy` — no Zeno behaviour, the kernel never stays inside an instant:
      along every run (any algorithm, any environment) the clock passes every bound unless a block
      raises; hence every live process is resumed again (`C05_every_live_process_resumed_simpy`).
  (2) `C05_no_silent_hang_queue_simpy` — THE MAIN THEOREM: under the static hypotheses (well formed,
      feasible, empty full-free buffer, H1, H4, queue algorithm, batch planning; ANY delay table and
      delay script) after some number of kernel steps the run has RAISED, or it is at
      `is_finished()` with nothing raised.  No silent hang: no deadlock, no starvation, no process
      polling for ever.
  (3) `C05_no_raise_queue_simpy_noH2` — under H1 no block ever raises (every `raise` of
      Procs / Cluster / Buffer is excluded; the two that depend on SimPy's order inside an instant —
      provisioning finds its machines, an allocation process finds its machine available — by the
      order fact `C05_urgent_first_simpy` and, F14, the accounting invariant `sim_fit`), and
      `C05_terminates_queue_simpy_noH2` — THE TARGET:
      ∃ n, after n kernel steps `isFinished = true ∧ crashed = none`.
      `C05_no_raise_queue_simpy`, `C05_terminates_queue_simpy`: the statements before F14, with H2.
      `C05_terminates_queue_simpy_of_noRaise`: the same with the run-level hypothesis "no block
      raises" in place of H2.
  (4) stage lemmas (`…_partial`): every supervisor / provisioning / stream / allocation process /
      task body ends; an admitted observation becomes FINISHED; in a quiescent state the telescope
      admits, the scheduler loop hands over, `allocate_tasks` removes the observation or starts a task.

  Not proved: a bound on the time (the proof of (2) is by stabilisation of finitely many monotone
  predicates and gives no number).
-/
import TopsimProofs.Live20
import TopsimProofs.Live16

namespace Topsim

open KState Sys

/-! ### H1: no tiering -/

/-- **H1 ⇒ never over the tiering threshold.**  Along a run of the simulator that has not raised,
with an initially empty, full-free buffer, positive ingest rates and H1: `overThreshold = false`
(so `Buffer.run` never evaluates `stored[-1]` and `has_observations_ready_for_processing()` is
"something is stored"), and the hot capacity is the configured one. -/
theorem C05_no_tiering_simpy (env : SimEnv) (s0 : Sys) (hw : Sys.WFConfig s0)
    (hb0 : s0.buf.hot.stored = [] ∧ s0.buf.hot.scheduled = [] ∧ s0.buf.hot.finished = [] ∧
      s0.buf.cold.stored = [])
    (hfull : s0.buf.size = [] ∧ s0.buf.hot.cur = s0.buf.hot.total ∧ s0.buf.cold.cur = s0.buf.cold.total)
    (hrate : ∀ o ∈ s0.obs, 0 < o.rate) (hH1 : Sys.NoTierCfg s0)
    (k : SimState) (h : SimRun env s0 k) (hc : k.st.crashed = none) :
    k.st.buf.overThreshold = false ∧ k.st.buf.hot.total = s0.buf.hot.total :=
  ⟨(live_not_over env s0 hw hb0 hfull hrate hH1 k h hc).1, (live_not_over env s0 hw hb0 hfull hrate hH1 k h hc).2.1⟩

/-- … hence no tier-move process is ever created and the cold tier is never touched. -/
theorem C05_no_tier_process_simpy {env : SimEnv} {s0 : Sys} (C : LiveCfg env s0) (hh0 : s0.halted = false)
    (n : Nat) : Sys.NoTier (simAt env s0 n).st ∧ (simAt env s0 n).st.buf.cold = s0.buf.cold :=
  live_noTier C (liveKernel C hh0) n

/-! ### (1) the clock -/

/-- **Time diverges** (any configuration, any algorithm, any environment): for every index `n` and
every bound `T` there is a later index at which a block has raised or every pending event is due at
`T` or later.  (Each block of a process due before `T` replaces its entry by finitely many smaller
ones in a well-founded order: Dershowitz–Manna on a multiset of ranks.) -/
theorem C05_time_diverges_simpy (env : SimEnv) (s0 : Sys) (hw : Sys.WFConfig s0) (n T : Nat) :
    ∃ n', n ≤ n' ∧ ((simAt env s0 n').st.crashed ≠ none ∨
      ∀ x ∈ (simAt env s0 n').heap, ((T : Nat) : Time) ≤ x.time) :=
  live_time_div env s0 hw n T

/-- **Every live process is resumed again**, in a run that never raises; its record is untouched
until then. -/
theorem C05_every_live_process_resumed_simpy (env : SimEnv) (s0 : Sys) (hw : Sys.WFConfig s0)
    (hnr : NoRaise env s0) (n pid : Nat) (p : Proc) (hp : (simAt env s0 n).st.proc? pid = some p)
    (ha : p.alive = true) :
    ∃ n' e, n ≤ n' ∧ (simAt env s0 n').peek = some e ∧ e.pid = pid ∧ e.time = p.wake ∧
      (simAt env s0 n').st.proc? pid = some p ∧
      ∀ m, n ≤ m → m ≤ n' → (simAt env s0 m).st.proc? pid = some p :=
  live_next_resume env s0 hw hnr n pid p hp ha

/-! ### (2) no silent hang -/

/-- **No silent hang.**  Queue algorithm, batch planning, well-formed feasible configuration,
initially empty full-free buffer, H1, H4; any delay table / delay script / static-plan table in
`env`.  After some number `n` of kernel steps the run has raised an exception, or it is at
`is_finished()` with no exception raised (and the run up to there is one uninterrupted `env.run`). -/
theorem C05_no_silent_hang_queue_simpy (env : SimEnv) (s0 : Sys) (hw : Sys.WFConfig s0)
    (hfe : Sys.Feasible s0)
    (hb0 : s0.buf.hot.stored = [] ∧ s0.buf.hot.scheduled = [] ∧ s0.buf.hot.finished = [] ∧
      s0.buf.cold.stored = [])
    (hfull : s0.buf.size = [] ∧ s0.buf.hot.cur = s0.buf.hot.total ∧ s0.buf.cold.cur = s0.buf.cold.total)
    (hct : s0.buf.cold.transfer = none) (hh0 : s0.halted = false)
    (hH1 : Sys.NoTierCfg s0) (halg : s0.alg = .queue) (hstat : s0.staticPlan = false)
    (htopo : ∀ o ∈ s0.obs, IsTopo o.wf) :
    ∃ n, (ilSimSteps env n (SimState.start s0)).st.crashed ≠ none ∨
      ((ilSimSteps env n (SimState.start s0)).st.isFinished = true ∧
        (ilSimSteps env n (SimState.start s0)).st.crashed = none ∧
        SimRun env s0 (ilSimSteps env n (SimState.start s0))) :=
  live_no_silent_hang env s0 hw hfe hb0 hfull hct hh0 hH1 halg hstat htopo

/-! ### (3) termination of a run that never raises -/

/-- the target statement with the run-level hypothesis `hnr` (no block raises) in the place of H2: the
state after `n` kernel steps has `isFinished = true ∧ crashed = none`. -/
theorem C05_terminates_queue_simpy_of_noRaise (env : SimEnv) (s0 : Sys) (hw : Sys.WFConfig s0)
    (hfe : Sys.Feasible s0)
    (hb0 : s0.buf.hot.stored = [] ∧ s0.buf.hot.scheduled = [] ∧ s0.buf.hot.finished = [] ∧
      s0.buf.cold.stored = [])
    (hfull : s0.buf.size = [] ∧ s0.buf.hot.cur = s0.buf.hot.total ∧ s0.buf.cold.cur = s0.buf.cold.total)
    (hct : s0.buf.cold.transfer = none) (hh0 : s0.halted = false)
    (hH1 : Sys.NoTierCfg s0) (halg : s0.alg = .queue) (hstat : s0.staticPlan = false)
    (htopo : ∀ o ∈ s0.obs, IsTopo o.wf)
    (hnr : ∀ n, (ilSimSteps env n (SimState.start s0)).st.crashed = none) :
    ∃ n, (ilSimSteps env n (SimState.start s0)).st.isFinished = true ∧
      (ilSimSteps env n (SimState.start s0)).st.crashed = none ∧
      SimRun env s0 (ilSimSteps env n (SimState.start s0)) := by
  obtain ⟨n, h | h⟩ := live_no_silent_hang env s0 hw hfe hb0 hfull hct hh0 hH1 halg hstat htopo
  · exact absurd (hnr n) h
  · exact ⟨n, h⟩

/-- **URGENT first** (any configuration): when the kernel resumes a process that has already run a
block, no live process is still before its first block — the `Initialize` events of newly created
processes are popped before every timeout of the instant. -/
theorem C05_urgent_first_simpy (env : SimEnv) (s0 : Sys) (hw : Sys.WFConfig s0) (n : Nat) {e : HEntry}
    {p : Proc} (hpk : (simAt env s0 n).peek = some e) (hpp : (simAt env s0 n).st.proc? e.pid = some p)
    (ha : p.alive = true) :
    (∀ q ∈ (simAt env s0 n).st.procs, q.alive = true → q.pc = 0 → p.pc = 0) ∧
    (1 ≤ p.pc → ∀ q ∈ (simAt env s0 n).st.procs, q.alive = true → 1 ≤ q.pc) :=
  nc_urgent_first hw n hpk hpp ha

/-- F14 — H2 (`OneAdmission`) dropped, the repaired admission test makes it unnecessary.  **No block raises**: queue algorithm, batch planning, well-formed feasible configuration,
initially empty full-free buffer, H1 (no tiering); any
environment. -/
theorem C05_no_raise_queue_simpy_noH2 (env : SimEnv) (s0 : Sys) (hw : Sys.WFConfig s0)
    (hfe : Sys.Feasible s0)
    (hb0 : s0.buf.hot.stored = [] ∧ s0.buf.hot.scheduled = [] ∧ s0.buf.hot.finished = [] ∧
      s0.buf.cold.stored = [])
    (hfull : s0.buf.size = [] ∧ s0.buf.hot.cur = s0.buf.hot.total ∧ s0.buf.cold.cur = s0.buf.cold.total)
    (hct : s0.buf.cold.transfer = none) (hh0 : s0.halted = false)
    (hH1 : Sys.NoTierCfg s0) (halg : s0.alg = .queue)
    (hstat : s0.staticPlan = false) (htopo : ∀ o ∈ s0.obs, IsTopo o.wf) (n : Nat) :
    (ilSimSteps env n (SimState.start s0)).st.crashed = none := by
  have := live_noRaise (env := env) ⟨hw, hfe, hb0, hfull, hct, hH1, halg, hstat, htopo, hh0⟩ n
  rw [simAt_eq_ilSimSteps] at this
  exact this

-- F14: H2 is no longer needed (`…_noH2` above); statement kept verbatim
/-- **No block raises**: queue algorithm, batch planning, well-formed feasible configuration,
initially empty full-free buffer, H1 (no tiering), H2 (one admission per telescope block); any
environment. -/
theorem C05_no_raise_queue_simpy (env : SimEnv) (s0 : Sys) (hw : Sys.WFConfig s0)
    (hfe : Sys.Feasible s0)
    (hb0 : s0.buf.hot.stored = [] ∧ s0.buf.hot.scheduled = [] ∧ s0.buf.hot.finished = [] ∧
      s0.buf.cold.stored = [])
    (hfull : s0.buf.size = [] ∧ s0.buf.hot.cur = s0.buf.hot.total ∧ s0.buf.cold.cur = s0.buf.cold.total)
    (hct : s0.buf.cold.transfer = none) (hh0 : s0.halted = false)
    (hH1 : Sys.NoTierCfg s0) (hH2 : Sys.OneAdmission s0) (halg : s0.alg = .queue)
    (hstat : s0.staticPlan = false) (htopo : ∀ o ∈ s0.obs, IsTopo o.wf) (n : Nat) :
    (ilSimSteps env n (SimState.start s0)).st.crashed = none := by
  have _ := hH2
  exact C05_no_raise_queue_simpy_noH2 env s0 hw hfe hb0 hfull hct hh0 hH1 halg hstat htopo n

/-- F14 — H2 (`OneAdmission`) dropped, the repaired admission test makes it unnecessary.  **`C05_terminates_queue_simpy`** — THE TARGET.  For `s0.alg = .queue`, `WFConfig`, `Feasible`,
initial buffers empty / full-free (`hb0`, `hfull`), H1 (`NoTierCfg`), H3 (in
`Feasible`), H4 (`IsTopo`), batch planning, any `env`: there is `n` such that the state after `n`
kernel steps has `isFinished = true ∧ crashed = none` (and the run up to there is one uninterrupted
`env.run`). -/
theorem C05_terminates_queue_simpy_noH2 (env : SimEnv) (s0 : Sys) (hw : Sys.WFConfig s0)
    (hfe : Sys.Feasible s0)
    (hb0 : s0.buf.hot.stored = [] ∧ s0.buf.hot.scheduled = [] ∧ s0.buf.hot.finished = [] ∧
      s0.buf.cold.stored = [])
    (hfull : s0.buf.size = [] ∧ s0.buf.hot.cur = s0.buf.hot.total ∧ s0.buf.cold.cur = s0.buf.cold.total)
    (hct : s0.buf.cold.transfer = none) (hh0 : s0.halted = false)
    (hH1 : Sys.NoTierCfg s0) (halg : s0.alg = .queue)
    (hstat : s0.staticPlan = false) (htopo : ∀ o ∈ s0.obs, IsTopo o.wf) :
    ∃ n, (ilSimSteps env n (SimState.start s0)).st.isFinished = true ∧
      (ilSimSteps env n (SimState.start s0)).st.crashed = none ∧
      SimRun env s0 (ilSimSteps env n (SimState.start s0)) :=
  live_terminates_cfg ⟨hw, hfe, hb0, hfull, hct, hH1, halg, hstat, htopo, hh0⟩

-- F14: H2 is no longer needed (`…_noH2` above); statement kept verbatim
/-- **`C05_terminates_queue_simpy`** — THE TARGET.  For `s0.alg = .queue`, `WFConfig`, `Feasible`,
initial buffers empty / full-free (`hb0`, `hfull`), H1 (`NoTierCfg`), H2 (`OneAdmission`), H3 (in
`Feasible`), H4 (`IsTopo`), batch planning, any `env`: there is `n` such that the state after `n`
kernel steps has `isFinished = true ∧ crashed = none` (and the run up to there is one uninterrupted
`env.run`). -/
theorem C05_terminates_queue_simpy (env : SimEnv) (s0 : Sys) (hw : Sys.WFConfig s0)
    (hfe : Sys.Feasible s0)
    (hb0 : s0.buf.hot.stored = [] ∧ s0.buf.hot.scheduled = [] ∧ s0.buf.hot.finished = [] ∧
      s0.buf.cold.stored = [])
    (hfull : s0.buf.size = [] ∧ s0.buf.hot.cur = s0.buf.hot.total ∧ s0.buf.cold.cur = s0.buf.cold.total)
    (hct : s0.buf.cold.transfer = none) (hh0 : s0.halted = false)
    (hH1 : Sys.NoTierCfg s0) (hH2 : Sys.OneAdmission s0) (halg : s0.alg = .queue)
    (hstat : s0.staticPlan = false) (htopo : ∀ o ∈ s0.obs, IsTopo o.wf) :
    ∃ n, (ilSimSteps env n (SimState.start s0)).st.isFinished = true ∧
      (ilSimSteps env n (SimState.start s0)).st.crashed = none ∧
      SimRun env s0 (ilSimSteps env n (SimState.start s0)) := by
  have _ := hH2
  exact C05_terminates_queue_simpy_noH2 env s0 hw hfe hb0 hfull hct hh0 hH1 halg hstat htopo

/-! ### (4) the stages (trajectory level; `LiveCfg` = the hypotheses of (3)) -/

/-- every worker process — ingest supervisor, provisioning, ingest stream, allocation process
(`allocate_task_to_cluster`), task body (`do_work`) — ends -/
theorem C05_worker_ends_partial {env : SimEnv} {s0 : Sys} (C : LiveCfg env s0) (hh0 : s0.halted = false)
    {n pid : Nat} {p : Proc} (hp : (simAt env s0 n).st.proc? pid = some p) (ha : p.alive = true)
    (hk : p.k.tag = "allocIngest" ∨ p.k.tag = "provIngest" ∨ p.k.tag = "ingestStream" ∨
      p.k.tag = "allocTask" ∨ p.k.tag = "doWork") :
    ∃ n', n ≤ n' ∧ ∃ p', (simAt env s0 n').st.proc? pid = some p' ∧ p'.alive = false :=
  live_worker_ends C (liveKernel C hh0) hp ha hk

/-- an admitted observation becomes FINISHED -/
theorem C05_admitted_finishes_partial {env : SimEnv} {s0 : Sys} (C : LiveCfg env s0)
    (hh0 : s0.halted = false) {n : Nat} {o : Oid} {ob : Obs} {a : Nat}
    (hob : (simAt env s0 n).st.obs? o = some ob) (hast : ob.ast = some a) :
    ∃ n', n ≤ n' ∧ ∃ ob', (simAt env s0 n').st.obs? o = some ob' ∧ ob'.status = .finished :=
  live_obs_finishes C (liveKernel C hh0) hob hast

/-- from some index on no block creates a process and no worker process is alive -/
theorem C05_quiescent_partial {env : SimEnv} {s0 : Sys} (C : LiveCfg env s0) (hh0 : s0.halted = false) :
    ∃ N, ∀ n, N ≤ n → (simAt env s0 n).st.NoWorker :=
  let ⟨N, _, h⟩ := live_quiescent C (liveKernel C hh0) (liveParts C (liveKernel C hh0)); ⟨N, h⟩

/-- with no worker alive and every admitted observation FINISHED the system is free: no machine
occupied or ingesting, every machine available, the ingest counter and the arrays in use at 0 -/
theorem C05_free_partial {env : SimEnv} {s0 : Sys} (C : LiveCfg env s0) (hh0 : s0.halted = false) (n : Nat)
    (hq : (simAt env s0 n).st.NoWorker)
    (hfin : ∀ ob ∈ (simAt env s0 n).st.obs, ob.ast ≠ none → ob.status = .finished) :
    (simAt env s0 n).st.cl.occupied = [] ∧ (simAt env s0 n).st.cl.ingest = [] ∧
    (simAt env s0 n).st.cl.running = [] ∧
    (simAt env s0 n).st.cl.available.length = s0.machines.length ∧ (simAt env s0 n).st.provIngest = 0 ∧
    (simAt env s0 n).st.telUse = 0 ∧ (simAt env s0 n).st.telStatus = false :=
  live_free C (liveKernel C hh0) n hq hfin

/-- … and then a block of the telescope at a time at which every observation without a recorded
start is due admits one -/
theorem C05_admission_partial {env : SimEnv} {s0 : Sys} (C : LiveCfg env s0) (hh0 : s0.halted = false)
    (n : Nat) {e : HEntry} {p : Proc} (hpk : (simAt env s0 n).peek = some e)
    (hpp : (simAt env s0 n).st.proc? e.pid = some p) (ha : p.alive = true) (hk : p.k = .telescope)
    (hq : (simAt env s0 n).st.NoWorker)
    (hfin : ∀ ob ∈ (simAt env s0 n).st.obs, ob.ast ≠ none → ob.status = .finished)
    (hex : ∃ ob ∈ (simAt env s0 n).st.obs, ob.ast = none)
    (hdue : ∀ ob ∈ (simAt env s0 n).st.obs, ob.ast = none → ((ob.est : Nat) : Time) ≤ p.wake) :
    ∃ o ob0 ob1 a, (simAt env s0 n).st.obs? o = some ob0 ∧ ob0.ast = none ∧
      (simAt env s0 (n + 1)).st.obs? o = some ob1 ∧ ob1.ast = some a :=
  live_admit C (liveKernel C hh0) n hpk hpp ha hk hq hfin hex hdue

/-- a block of the scheduler loop with something stored hands the last stored observation over -/
theorem C05_handover_partial {env : SimEnv} {s0 : Sys} (C : LiveCfg env s0) (hh0 : s0.halted = false)
    (n : Nat) {e : HEntry} {p : Proc} (hpk : (simAt env s0 n).peek = some e)
    (hpp : (simAt env s0 n).st.proc? e.pid = some p) (ha : p.alive = true) (hk : p.k = .schedLoop)
    (hst : (simAt env s0 n).st.buf.hot.stored ≠ []) :
    ∃ o ∈ (simAt env s0 n).st.buf.hot.stored, ¬ Sys.PQ o (simAt env s0 n).st ∧
      Sys.PQ o (simAt env s0 (n + 1)).st :=
  live_schedLoop_pops C (liveKernel C hh0) n hpk hpp ha hk hst

/-- a block of the `allocate_tasks` process of an observation not yet removed, in a state with no
allocation process or task body alive, no machine occupied or ingesting and a machine available,
removes the observation (its pruned plan is empty) or starts one more task of its workflow (the
record of a node goes from UNSCHEDULED to SCHEDULED) -/
theorem C05_allocTasks_progress_partial {env : SimEnv} {s0 : Sys} (C : LiveCfg env s0)
    (hh0 : s0.halted = false) (n : Nat) {e : HEntry} {p : Proc}
    (hpk : (simAt env s0 n).peek = some e) (hpp : (simAt env s0 n).st.proc? e.pid = some p)
    (ha : p.alive = true) {o : Oid} {sc pa : List (Tid × Mid)} {po : List Tid}
    (hk : p.k = .allocTasks o sc pa po false) (hrm : o ∉ (simAt env s0 n).st.buf.hot.finished)
    (hav : (simAt env s0 n).st.cl.available ≠ [])
    (hocc : (simAt env s0 n).st.cl.occupied = [] ∧ (simAt env s0 n).st.cl.ingest = [])
    (hq : ∀ q ∈ (simAt env s0 n).st.procs, q.alive = true → q.k.tag ≠ "allocTask" ∧ q.k.tag ≠ "doWork") :
    o ∈ (simAt env s0 (n + 1)).st.buf.hot.finished ∨
    ∃ ob ∈ s0.obs, ob.id = o ∧ ∃ node ∈ ob.wf.topo,
      ¬ Sys.PSch o node (simAt env s0 n).st ∧ Sys.PSch o node (simAt env s0 (n + 1)).st :=
  live_allocTasks_progress C (liveKernel C hh0) n hpk hpp ha hk hrm hav hocc hq

/-! ### K2 with pairwise distinct planned starts, repaired (F14) -/

/-- F14 (replaces `C05_K2_distinct_est_witness`, which stated that this run raised RuntimeError with
B and C both admitted at t = 4).  Configuration `k2W` (one machine, two arrays, ingest limit 2; A:
start 0, 3 steps, both arrays; B: start 1; C: start 2; one array, one step, one ingest machine each;
no workflows; buffers 1000 / 1000; pairwise DISTINCT planned starts 0, 1, 2) is well formed,
feasible, satisfies H1 and H4 — and not H2.  B and C wait for A's arrays and are both visited by
the telescope's block at t = 4.  With the repaired admission test only B is admitted there (the
single available machine is promised to B, so C is refused — state `k2K5`, just before t = 5,
nothing raised); C is admitted at t = 6, and the run reaches `is_finished()` with nothing raised. -/
theorem C05_K2_repaired_witness :
    Sys.WFConfig k2W ∧ Sys.Feasible k2W ∧ Sys.NoTierCfg k2W ∧ (∀ o ∈ k2W.obs, IsTopo o.wf) ∧
    k2W.obs.map (·.est) = [0, 1, 2] ∧ ¬ Sys.OneAdmission k2W ∧
    SimRun {} k2W k2K5 ∧ k2K5.st.crashed = none ∧
    k2K5.st.obs.map (fun o => (o.id, o.ast)) = [(0, some 0), (1, some 4), (2, none)] ∧
    SimRun {} k2W k2K ∧ k2K.st.isFinished = true ∧ k2K.st.crashed = none ∧
    k2K.st.obs.map (fun o => (o.id, o.ast)) = [(0, some 0), (1, some 4), (2, some 6)] :=
  ⟨k2W_wf, k2W_feasible, k2W_h1, k2W_topo, k2W_est, k2W_not_oneAdmission, k2K5_run, k2K5_spec.1,
    k2K5_spec.2.1, k2K_run, k2K_spec.2.2, k2K_spec.1, k2K_spec.2.1⟩

/-! ### the hypotheses are satisfiable -/

/-- the static hypotheses of the main theorem (and H2) hold of configuration `c04W1`
(TopsimProofs/Witness1.lean: one machine, one observation with the chain workflow `0 → 1`), whose
run reaches `is_finished()` with nothing raised before t = 8 -/
example : Sys.WFConfig c04W1 ∧ Sys.Feasible c04W1 ∧ c04W1.buf.cold.transfer = none ∧ c04W1.halted = false ∧
    Sys.NoTierCfg c04W1 ∧ Sys.OneAdmission c04W1 ∧ c04W1.alg = .queue ∧ c04W1.staticPlan = false ∧
    (∀ o ∈ c04W1.obs, IsTopo o.wf) ∧ c04S1.isFinished = true ∧ c04S1.crashed = none := by
  refine ⟨c04W1_wf, by simp [Sys.Feasible, c04W1, c04Obs1, Buffer.init], rfl, rfl, by unfold Sys.NoTierCfg; decide,
    ?_, rfl, rfl, ?_, (witChk_spec c04S1_chk).1, (witChk_spec c04S1_chk).2.1⟩
  · intro o1 h1 o2 h2 hne
    simp only [c04W1, List.mem_cons, List.not_mem_nil, or_false] at h1 h2
    subst h1; subst h2
    exact absurd rfl hne
  · intro o ho
    simp only [c04W1, List.mem_cons, List.not_mem_nil, or_false] at ho
    subst ho
    exact ⟨by decide, by intro n; simp [c04Obs1], by decide⟩

end Topsim
