/-
  C03, trajectory clauses — a workflow task and the predecessors in the graph of
  its observation's plan, over every state a simulation can reach with one of the
  four shipped algorithms.

  Vocabulary.  `pl.edges` is the plan's graph (never rewritten; `pl.tasks` is pruned
  as tasks finish).  `s.task? t` is the record of task `t` (`ast` / `aft` / `status`
  are the stamps `do_work` and `allocate_task_to_cluster` write).  A task is
  "started" when its record has `ast = some a`.  The process table keeps ended
  processes: `.doWork t m cross ph tot` is the body of `t` on machine `m` with the
  cross-machine list `cross` it was handed; `ph ≥ 2` means it has stamped the start.

  What the code does: `do_work` ends one timestep before the finish it records
  (`yield timeout(duration - 1); self.aft = env.now + 1`); the allocation process
  (`allocate_task_to_cluster`) polls once per timestep and, when it sees the body
  ended, enters the task in the cluster's finished map; `allocate_tasks` proposes a
  successor as soon as `is_task_finished` holds for all predecessors.

  `Reach` lets the blocks of one instant run in ANY order.  Under `Reach` the clause
  "recorded finish of every predecessor ≤ recorded start of the task" is FALSE: if,
  inside one instant, the predecessor's body ends, THEN its allocation process polls,
  THEN `allocate_tasks` runs, the successor is allocated and started in that same
  instant, one timestep before the finish its predecessor recorded
  (`C03_precedence_statement_false`; run `precSchedAdv`, TopsimProofs/Preced1.lean).

  What is TRUE for every order (`C03_precedence_partial`): the predecessor is reported
  finished by the cluster, its record is FINISHED and carries a finish stamp, and that
  stamp is at most ONE timestep after the start of the task (the predecessor's body had
  ended when the task started).

  The exact clause holds (`C03_precedence`) in every run whose steps satisfy
  `pollAfterSched` (`ReachSchedFirst`, TopsimProofs/Preced14.lean): the block in which
  an allocation process of a task of observation `o` reports the task finished runs
  after the block of `o`'s `allocate_tasks` process of that instant.  In SimPy the
  allocation process is created by, and therefore resumed after, that `allocate_tasks`
  process at every instant.
-/
import TopsimProofs.Preced20
import TopsimProps.C03

namespace Topsim
namespace Sys

/-! ### (1) precedence -/

/-- (1), full strength for arbitrary block order (FALSE, see below): for every started task and
every predecessor in the plan graph, the predecessor's record is FINISHED and its recorded finish
is not later than the recorded start of the task. -/
def C03_precedence_statement : Prop :=
  ∀ (s0 s : Sys), WFConfig s0 → s0.alg ≠ .oracle →
    (s0.buf.hot.stored = [] ∧ s0.buf.hot.scheduled = [] ∧ s0.buf.hot.finished = [] ∧ s0.buf.cold.stored = []) →
    Reach s0 s → s.crashed = none →
    ∀ pl ∈ s.plans, ∀ q t, (q, t) ∈ pl.edges → ∀ r a, s.task? t = some r → r.ast = some a →
      ∃ rq f, s.task? q = some rq ∧ rq.status = .finished ∧ rq.aft = some f ∧ f ≤ a

theorem hb0_bufList {s0 : Sys} (hb0 : s0.buf.hot.stored = [] ∧ s0.buf.hot.scheduled = [] ∧
    s0.buf.hot.finished = [] ∧ s0.buf.cold.stored = []) : bufList s0.buf = [] := by
  obtain ⟨h1, h2, h3, h4⟩ := hb0
  simp [bufList, h1, h2, h3, h4]

/-- (1), the part that holds for every order of the blocks inside an instant.  In a run of a
shipped algorithm that has not crashed, from a configuration whose buffer holds no observation:
for every plan, every edge `q → t` of its graph and every started record of `t` (`ast = some a`),
the cluster reports `q` finished, the record of `q` is FINISHED and carries a finish stamp `f`,
and `f ≤ a + 1`. -/
-- Hypotheses.  `ha` (a shipped algorithm): the oracle algorithm may propose a task whose
-- predecessors are not finished.  `hb0` (the initial buffer lists are empty), as in C04: with an
-- observation stored twice the scheduler loop plans it twice and the second plan replaces the
-- first.  `hc` (no block has raised): the model lets the other blocks of the run go on after an
-- exception; a body that raises (zero bandwidth, zero speed) ends without a finish stamp and its
-- allocation process still reports the task finished.
theorem C03_precedence_partial (s0 s : Sys) (hw : WFConfig s0) (ha : s0.alg ≠ .oracle)
    (hb0 : s0.buf.hot.stored = [] ∧ s0.buf.hot.scheduled = [] ∧ s0.buf.hot.finished = [] ∧
      s0.buf.cold.stored = [])
    (h : Reach s0 s) (hc : s.crashed = none) :
    ∀ pl ∈ s.plans, ∀ q t, (q, t) ∈ pl.edges → ∀ r a, s.task? t = some r → r.ast = some a →
      s.cl.isTaskFinished q = true ∧
      ∃ rq f, s.task? q = some rq ∧ rq.status = .finished ∧ rq.aft = some f ∧ f ≤ a + 1 :=
  reach_precedence s0 s hw (hb0_bufList hb0) ha h hc

/-- (1), exact, in the order of `ReachSchedFirst` (every step satisfies `pollAfterSched`): the
recorded finish of every predecessor in the plan graph is not later than the recorded start. -/
theorem C03_precedence (s0 s : Sys) (hw : WFConfig s0) (ha : s0.alg ≠ .oracle)
    (hb0 : s0.buf.hot.stored = [] ∧ s0.buf.hot.scheduled = [] ∧ s0.buf.hot.finished = [] ∧
      s0.buf.cold.stored = [])
    (h : ReachSchedFirst s0 s) (hc : s.crashed = none) :
    ∀ pl ∈ s.plans, ∀ q t, (q, t) ∈ pl.edges → ∀ r a, s.task? t = some r → r.ast = some a →
      s.cl.isTaskFinished q = true ∧
      ∃ rq f, s.task? q = some rq ∧ rq.status = .finished ∧ rq.aft = some f ∧ f ≤ a :=
  reach_precedence_exact s0 s hw (hb0_bufList hb0) ha h hc

/-- the same two statements with the predecessors read off `Plan.preds` (what the algorithms test) -/
theorem C03_precedence_partial_preds (s0 s : Sys) (hw : WFConfig s0) (ha : s0.alg ≠ .oracle)
    (hb0 : s0.buf.hot.stored = [] ∧ s0.buf.hot.scheduled = [] ∧ s0.buf.hot.finished = [] ∧
      s0.buf.cold.stored = [])
    (h : Reach s0 s) (hc : s.crashed = none) :
    ∀ pl ∈ s.plans, ∀ t r a, s.task? t = some r → r.ast = some a → ∀ q ∈ pl.preds t,
      s.cl.isTaskFinished q = true ∧
      ∃ rq f, s.task? q = some rq ∧ rq.status = .finished ∧ rq.aft = some f ∧ f ≤ a + 1 :=
  fun pl hpl t r a hr hast q hq =>
    C03_precedence_partial s0 s hw ha hb0 h hc pl hpl q t (planPreds_mem hq) r a hr hast

theorem C03_precedence_preds (s0 s : Sys) (hw : WFConfig s0) (ha : s0.alg ≠ .oracle)
    (hb0 : s0.buf.hot.stored = [] ∧ s0.buf.hot.scheduled = [] ∧ s0.buf.hot.finished = [] ∧
      s0.buf.cold.stored = [])
    (h : ReachSchedFirst s0 s) (hc : s.crashed = none) :
    ∀ pl ∈ s.plans, ∀ t r a, s.task? t = some r → r.ast = some a → ∀ q ∈ pl.preds t,
      s.cl.isTaskFinished q = true ∧
      ∃ rq f, s.task? q = some rq ∧ rq.status = .finished ∧ rq.aft = some f ∧ f ≤ a :=
  fun pl hpl t r a hr hast q hq =>
    C03_precedence s0 s hw ha hb0 h hc pl hpl q t (planPreds_mem hq) r a hr hast

/-- (1) is false for arbitrary block order: the run `precSchedAdv` of `precW0` (one machine, one
observation whose workflow is the chain `precA → precB`, the queue algorithm, no delay) reaches a
state in which `precB` has started at t = 2 and `precA` has the recorded finish t = 3. -/
theorem C03_precedence_statement_false : ¬ C03_precedence_statement := by
  intro hst
  obtain ⟨hcr, hpl, hB, hA, _, _⟩ := precSchedAdv_final
  generalize hs : precRun precSchedAdv precW0.start = s at hcr hpl hB hA
  have hr : Reach precW0 s := hs ▸ precSchedAdv_reach
  -- the plan with the edge
  obtain ⟨pl, hplm, hed⟩ : ∃ pl ∈ s.plans, (precA, precB) ∈ pl.edges := by
    cases hp : s.plans with
    | nil => rw [hp] at hpl; simp at hpl
    | cons pl rest =>
      rw [hp] at hpl
      simp only [List.map_cons, List.cons.injEq] at hpl
      exact ⟨pl, by simp, by rw [hpl.1]; simp⟩
  -- the two records
  obtain ⟨rB, hrB, hastB⟩ : ∃ r, s.task? precB = some r ∧ r.ast = some 2 := by
    cases ht : s.task? precB with
    | none => rw [ht] at hB; simp at hB
    | some r =>
      rw [ht] at hB
      simp only [Option.map_some, Option.some.injEq, Prod.mk.injEq] at hB
      exact ⟨r, rfl, hB.2.1⟩
  obtain ⟨rq, f, hrq, _, hf, hle⟩ := hst precW0 s precW0_wf (by simp [precW0]) precW0_buf hr hcr pl hplm
    precA precB hed rB 2 hrB hastB
  cases ht : s.task? precA with
  | none => rw [ht] at hA; simp at hA
  | some r =>
    rw [ht] at hA hrq
    simp only [Option.map_some, Option.some.injEq, Prod.mk.injEq] at hA
    injection hrq with e
    subst e
    rw [hA.2.2] at hf
    injection hf with e
    subst e
    exact absurd hle (by decide)

/-- non-vacuity of (1): a state reachable in the restricted order (creation order inside every
instant) with a started task that has a finished predecessor: recorded finish 3, start 4 -/
example : ∃ s, ReachSchedFirst precW0 s ∧ s.crashed = none ∧
    (s.plans.map (·.edges)) = [[(precA, precB)]] ∧
    (s.task? precB).map (fun r => (r.status, r.ast, r.preds)) = some (.running, some 4, [precA]) ∧
    (s.task? precA).map (fun r => (r.status, r.ast, r.aft)) = some (.finished, some 1, some 3) :=
  ⟨_, precSchedPid_reachSF, precSchedPid_final.1, precSchedPid_final.2.1, precSchedPid_final.2.2.1,
    precSchedPid_final.2.2.2.1⟩

/-- … and the state of the refutation: the bound `f ≤ a + 1` of the partial statement is met
with equality (finish 3, start 2); that run leaves the restricted order at its 28th block -/
example : (∃ s, Reach precW0 s ∧ s.crashed = none ∧
    (s.plans.map (·.edges)) = [[(precA, precB)]] ∧
    (s.task? precB).map (fun r => (r.status, r.ast, r.preds)) = some (.running, some 2, [precA]) ∧
    (s.task? precA).map (fun r => (r.status, r.ast, r.aft)) = some (.finished, some 1, some 3)) ∧
    precSchedFirstAll precSchedAdv precW0.start = false :=
  ⟨⟨_, precSchedAdv_reach, precSchedAdv_final.1, precSchedAdv_final.2.1, precSchedAdv_final.2.2.1,
    precSchedAdv_final.2.2.2.1⟩, precSchedAdv_not_schedFirst⟩

/-! ### (2) the recorded start -/

/-- (2) on trajectories, any order of the blocks.  For the body process of a started workflow
task `t` on machine `m` with cross-machine list `cross`: every task of `cross` is a workflow task
the cluster reports finished and occurs in the predecessor list of `t`'s record, and the recorded
start is `startTime alloc bw arrivals` for some time `alloc`, where `bw` is the bandwidth of `m`
and `arrivals` pairs the recorded finish of each task of `cross` with the volume of its edge into
`t` — by `C03_start_formula` the later of `alloc` and the last `aft + volume / bw`.  (`alloc` is
the time of the body's first block, which is the time of the allocation block: see
`C03_recorded_start_wait_block`, `C03_recorded_start_stamp_block`.) -/
theorem C03_recorded_start (s0 s : Sys) (hw : WFConfig s0) (ha : s0.alg ≠ .oracle)
    (hb0 : s0.buf.hot.stored = [] ∧ s0.buf.hot.scheduled = [] ∧ s0.buf.hot.finished = [] ∧
      s0.buf.cold.stored = [])
    (h : Reach s0 s) (hc : s.crashed = none) :
    ∀ d ∈ s.procs, ∀ t m cross ph tot, d.k = .doWork t m cross ph tot → 2 ≤ ph → IsWf t →
      (∀ x ∈ cross, IsWf x ∧ s.cl.isTaskFinished x = true ∧ ∃ r, s.task? t = some r ∧ x ∈ r.preds) ∧
      ∃ r mm alloc, s.task? t = some r ∧ s.machine? m = some mm ∧
        r.ast = some (startTime alloc mm.bw (crossArr s r cross)) := by
  intro d hd t m cross ph tot hk hph hwf
  obtain ⟨h1, h2⟩ := reach_recorded_start s0 s hw (hb0_bufList hb0) ha h hc d hd t m cross ph tot hk hph hwf
  refine ⟨fun x hx => ?_, h2⟩
  obtain ⟨g1, g2, g3⟩ := h1 x hx
  exact ⟨g1, (finT_iff s x).mp g2, g3⟩

/-- (2), the waits: the recorded start is not before the allocation time, and for every task `x`
of the cross-machine list, not before its recorded finish plus volume / bandwidth -/
theorem C03_recorded_start_waits (s0 s : Sys) (hw : WFConfig s0) (ha : s0.alg ≠ .oracle)
    (hb0 : s0.buf.hot.stored = [] ∧ s0.buf.hot.scheduled = [] ∧ s0.buf.hot.finished = [] ∧
      s0.buf.cold.stored = [])
    (h : Reach s0 s) (hc : s.crashed = none) :
    ∀ d ∈ s.procs, ∀ t m cross ph tot, d.k = .doWork t m cross ph tot → 2 ≤ ph → IsWf t →
      ∃ r mm a, s.task? t = some r ∧ s.machine? m = some mm ∧ r.ast = some a ∧
        ∀ x ∈ cross, ∃ rq f, s.task? x = some rq ∧ rq.aft = some f ∧
          f + (((dictGet r.io x).getD 0 : Nat) : Rat) / (mm.bw : Rat) ≤ a := by
  intro d hd t m cross ph tot hk hph hwf
  have hbuf := hb0_bufList hb0
  obtain ⟨h1, r, mm, alloc, g1, g2, g3⟩ := reach_recorded_start s0 s hw hbuf ha h hc d hd t m cross ph tot hk hph hwf
  have hpr := reach_pr s0 s hw hbuf ha h hc
  refine ⟨r, mm, _, g1, g2, g3, fun x hx => ?_⟩
  obtain ⟨a1, a2, _⟩ := h1 x hx
  obtain ⟨rq, k1, _, k3⟩ := hpr.finRec x a1 a2
  cases hf : rq.aft with
  | none => rw [hf] at k3; simp at k3
  | some f =>
    refine ⟨rq, f, k1, hf, ?_⟩
    have hmem : (f, (dictGet r.io x).getD 0) ∈ crossArr s r cross := by
      unfold crossArr
      refine List.mem_map.mpr ⟨x, hx, ?_⟩
      unfold aftOf
      rw [k1]; simp [hf]
    exact (C03_start_ge alloc mm.bw (crossArr s r cross)).2 _ hmem

/-- (2), the first block of a body with a non-empty cross-machine list, run at time `now`:
nothing is written, and the body is resumed after `startTime now bw arrivals - now` -/
theorem C03_recorded_start_wait_block (s : Sys) (now : Time) (orc : Oracle) (t : Tid) (m : Mid)
    (cross : List Tid) (tot : Nat) (hne : cross ≠ [])
    (hok : ∀ e, (s.doWorkBlock now orc t m cross 0 tot).2.2 ≠ .raised e) :
    ∃ r mm, s.task? t = some r ∧ s.machine? m = some mm ∧
      s.doWorkBlock now orc t m cross 0 tot =
        (s, .doWork t m cross 1 tot, .timeout (startTime now mm.bw (crossArr s r cross) - now)) :=
  dw_wait_block s now orc t m cross tot hne hok

/-- (2), the block that stamps the start (the first block when the cross-machine list is empty,
the second otherwise), run at time `now`: the record of the task gets `ast = now`, and the body
is resumed after `bodyWait total` to stamp the finish -/
theorem C03_recorded_start_stamp_block (s : Sys) (now : Time) (orc : Oracle) (t : Tid) (m : Mid)
    (cross : List Tid) (ph tot : Nat) (hph : ph = 1 ∨ (ph = 0 ∧ cross = []))
    (hok : ∀ e, (s.doWorkBlock now orc t m cross ph tot).2.2 ≠ .raised e) :
    ∃ r' tot', (s.doWorkBlock now orc t m cross ph tot).1.task? t = some r' ∧ r'.ast = some now ∧
      (s.doWorkBlock now orc t m cross ph tot).2.1 = .doWork t m cross 2 tot' ∧
      (s.doWorkBlock now orc t m cross ph tot).2.2 = .timeout ((bodyWait tot' : Nat) : Rat) :=
  dw_start_block s now orc t m cross ph tot hph hok

/-- (2), the last block of a body, run at time `now`: `aft = now + 1`, `ast` untouched -/
theorem C03_recorded_finish_block (s : Sys) (now : Time) (orc : Oracle) (t : Tid) (m : Mid)
    (cross : List Tid) (ph tot : Nat) (hph : 2 ≤ ph) (r : TaskRec) (hr : s.task? t = some r) :
    ∃ r', (s.doWorkBlock now orc t m cross ph tot).1.task? t = some r' ∧ r'.aft = some (now + 1) ∧
      r'.ast = r.ast ∧ (s.doWorkBlock now orc t m cross ph tot).2.2 = .done :=
  dw_end_block s now orc t m cross ph tot hph r hr

/-- non-vacuity of (2): two machines of bandwidth 2, three units of data on the edge.  `precA`
ran on machine 1 (recorded finish 3); `precB` is allocated at t = 4 on machine 0, its body
(process 14) carries the cross-machine list `[precA]`, and the recorded start is
`9/2 = startTime 4 2 [(3, 3)]`, the later of 4 and `3 + 3/2`. -/
example : ∃ s, ReachSchedFirst precW1 s ∧ s.crashed = none ∧
    (s.proc? 14).bind (fun p => precDoWork? p.k) = some (precB, 0, [precA], 2, 1) ∧
    (s.task? precB).map (fun r => (r.ast, r.io)) = some (some (9 / 2), [(precA, 3)]) ∧
    (s.task? precA).map (fun r => (r.status, r.aft)) = some (.finished, some 3) ∧
    (s.machine? 0).map (·.bw) = some 2 ∧ startTime 4 2 [(3, 3)] = 9 / 2 :=
  ⟨_, precSchedXfer_reachSF, precSchedXfer_final.1, precSchedXfer_final.2.1, precSchedXfer_final.2.2.1,
    precSchedXfer_final.2.2.2.1, precSchedXfer_final.2.2.2.2, by decide +kernel⟩

end Sys
end Topsim
