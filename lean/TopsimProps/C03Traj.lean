/-
  C03, trajectory clauses — a workflow task and the predecessors in the graph of
  its observation's plan, over every state a simulation can reach with one of the
  four shipped algorithms.

  Vocabulary.  `pl.edges` is the plan's graph (never rewritten; `pl.tasks` is pruned
  as tasks finish).  `s.task? t` is the record of task `t` (`ast` / `aft` / `status`
  are the stamps `do_work` and `allocate_task_to_cluster` write).  A task is
  "started" when its record has `ast = some a`.  The process table keeps ended
  processes: `.doWork t m cross ph tot` is the body of `t` on machine `m` with the
  cross-machine list `cross` it was handed; `ph ≥ 2` means it has stamped the start.

  What the code does: `do_work` ends one timestep before the finish it records
  (`yield timeout(duration - 1); self.aft = env.now + 1`); the allocation process
  (`allocate_task_to_cluster`) polls once per timestep and, when it sees the body
  ended AND `env.now >= task.aft` (the F13 repair), enters the task in the cluster's
  finished map; `allocate_tasks` proposes a successor as soon as `is_task_finished`
  holds for all predecessors.

  -- F13: with the repair the clause "recorded finish of every predecessor ≤ recorded
  start of the task" holds for EVERY order of the blocks inside an instant
  (`C03_precedence_any_order`, plain `Reach`; `C03_precedence_statement_holds`): a task
  is reported finished at a time `≥ aft`, and no live process is due earlier than the
  block that runs.  Before the repair the clause was false under `Reach`
  (run `precSchedAdv`, TopsimProofs/Preced1.lean: body ends, THEN its allocation process
  polls, THEN `allocate_tasks` runs, all inside one instant: successor started at 2,
  predecessor's recorded finish 3) and held only under the order condition
  `pollAfterSched` (`ReachSchedFirst`, TopsimProofs/Preced14.lean), which SimPy's order
  satisfies.  In the same adversarial order the successor now starts at 3 = the
  recorded finish.

  `C03_precedence_partial` (finish ≤ start + 1, any order) and `C03_precedence`
  (exact, `ReachSchedFirst`) are kept; both are now consequences of
  `C03_precedence_any_order`.
-/
import TopsimProofs.Preced20
import TopsimProps.C03

namespace Topsim
namespace Sys

/-! ### (1) precedence -/

/-- (1), full strength for arbitrary block order (F13: TRUE, `C03_precedence_statement_holds`;
false before the repair): for every started task and every predecessor in the plan graph, the
predecessor's record is FINISHED and its recorded finish is not later than the recorded start of
the task. -/
def C03_precedence_statement : Prop :=
  ∀ (s0 s : Sys), WFConfig s0 → s0.alg ≠ .oracle →
    (s0.buf.hot.stored = [] ∧ s0.buf.hot.scheduled = [] ∧ s0.buf.hot.finished = [] ∧ s0.buf.cold.stored = []) →
    Reach s0 s → s.crashed = none →
    ∀ pl ∈ s.plans, ∀ q t, (q, t) ∈ pl.edges → ∀ r a, s.task? t = some r → r.ast = some a →
      ∃ rq f, s.task? q = some rq ∧ rq.status = .finished ∧ rq.aft = some f ∧ f ≤ a

theorem hb0_bufList {s0 : Sys} (hb0 : s0.buf.hot.stored = [] ∧ s0.buf.hot.scheduled = [] ∧
    s0.buf.hot.finished = [] ∧ s0.buf.cold.stored = []) : bufList s0.buf = [] := by
  obtain ⟨h1, h2, h3, h4⟩ := hb0
  simp [bufList, h1, h2, h3, h4]

/-- (1), the part that holds for every order of the blocks inside an instant.  In a run of a
shipped algorithm that has not crashed, from a configuration whose buffer holds no observation:
for every plan, every edge `q → t` of its graph and every started record of `t` (`ast = some a`),
the cluster reports `q` finished, the record of `q` is FINISHED and carries a finish stamp `f`,
and `f ≤ a + 1`. -/
-- Hypotheses.  `ha` (a shipped algorithm): the oracle algorithm may propose a task whose
-- predecessors are not finished.  `hb0` (the initial buffer lists are empty), as in C04: with an
-- observation stored twice the scheduler loop plans it twice and the second plan replaces the
-- first.  `hc` (no block has raised): the model lets the other blocks of the run go on after an
-- exception; a body that raises (zero bandwidth, zero speed) ends without a finish stamp and its
-- allocation process still reports the task finished.
theorem C03_precedence_partial (s0 s : Sys) (hw : WFConfig s0) (ha : s0.alg ≠ .oracle)
    (hb0 : s0.buf.hot.stored = [] ∧ s0.buf.hot.scheduled = [] ∧ s0.buf.hot.finished = [] ∧
      s0.buf.cold.stored = [])
    (h : Reach s0 s) (hc : s.crashed = none) :
    ∀ pl ∈ s.plans, ∀ q t, (q, t) ∈ pl.edges → ∀ r a, s.task? t = some r → r.ast = some a →
      s.cl.isTaskFinished q = true ∧
      ∃ rq f, s.task? q = some rq ∧ rq.status = .finished ∧ rq.aft = some f ∧ f ≤ a + 1 :=
  reach_precedence s0 s hw (hb0_bufList hb0) ha h hc

/-- (1), exact, for EVERY order of the blocks inside an instant (`Reach`): the recorded finish of
every predecessor in the plan graph is not later than the recorded start. -/
-- F13: new; before the repair this held only under `ReachSchedFirst` (`C03_precedence` below)
theorem C03_precedence_any_order (s0 s : Sys) (hw : WFConfig s0) (ha : s0.alg ≠ .oracle)
    (hb0 : s0.buf.hot.stored = [] ∧ s0.buf.hot.scheduled = [] ∧ s0.buf.hot.finished = [] ∧
      s0.buf.cold.stored = [])
    (h : Reach s0 s) (hc : s.crashed = none) :
    ∀ pl ∈ s.plans, ∀ q t, (q, t) ∈ pl.edges → ∀ r a, s.task? t = some r → r.ast = some a →
      s.cl.isTaskFinished q = true ∧
      ∃ rq f, s.task? q = some rq ∧ rq.status = .finished ∧ rq.aft = some f ∧ f ≤ a :=
  reach_precedence_exact s0 s hw (hb0_bufList hb0) ha h hc

/-- (1), exact, in the order of `ReachSchedFirst` (every step satisfies `pollAfterSched`): the
recorded finish of every predecessor in the plan graph is not later than the recorded start. -/
theorem C03_precedence (s0 s : Sys) (hw : WFConfig s0) (ha : s0.alg ≠ .oracle)
    (hb0 : s0.buf.hot.stored = [] ∧ s0.buf.hot.scheduled = [] ∧ s0.buf.hot.finished = [] ∧
      s0.buf.cold.stored = [])
    (h : ReachSchedFirst s0 s) (hc : s.crashed = none) :
    ∀ pl ∈ s.plans, ∀ q t, (q, t) ∈ pl.edges → ∀ r a, s.task? t = some r → r.ast = some a →
      s.cl.isTaskFinished q = true ∧
      ∃ rq f, s.task? q = some rq ∧ rq.status = .finished ∧ rq.aft = some f ∧ f ≤ a :=
  C03_precedence_any_order s0 s hw ha hb0 h.toReach hc

/-- (1): the clause as first written holds -/
-- F13: replaces `C03_precedence_statement_false` (the clause was false before the repair)
theorem C03_precedence_statement_holds : C03_precedence_statement := by
  intro s0 s hw ha hb0 h hc pl hpl q t he r a hr hast
  exact (C03_precedence_any_order s0 s hw ha hb0 h hc pl hpl q t he r a hr hast).2

/-- the same two statements with the predecessors read off `Plan.preds` (what the algorithms test) -/
theorem C03_precedence_partial_preds (s0 s : Sys) (hw : WFConfig s0) (ha : s0.alg ≠ .oracle)
    (hb0 : s0.buf.hot.stored = [] ∧ s0.buf.hot.scheduled = [] ∧ s0.buf.hot.finished = [] ∧
      s0.buf.cold.stored = [])
    (h : Reach s0 s) (hc : s.crashed = none) :
    ∀ pl ∈ s.plans, ∀ t r a, s.task? t = some r → r.ast = some a → ∀ q ∈ pl.preds t,
      s.cl.isTaskFinished q = true ∧
      ∃ rq f, s.task? q = some rq ∧ rq.status = .finished ∧ rq.aft = some f ∧ f ≤ a + 1 :=
  fun pl hpl t r a hr hast q hq =>
    C03_precedence_partial s0 s hw ha hb0 h hc pl hpl q t (planPreds_mem hq) r a hr hast

-- F13: new, any order
theorem C03_precedence_preds_any_order (s0 s : Sys) (hw : WFConfig s0) (ha : s0.alg ≠ .oracle)
    (hb0 : s0.buf.hot.stored = [] ∧ s0.buf.hot.scheduled = [] ∧ s0.buf.hot.finished = [] ∧
      s0.buf.cold.stored = [])
    (h : Reach s0 s) (hc : s.crashed = none) :
    ∀ pl ∈ s.plans, ∀ t r a, s.task? t = some r → r.ast = some a → ∀ q ∈ pl.preds t,
      s.cl.isTaskFinished q = true ∧
      ∃ rq f, s.task? q = some rq ∧ rq.status = .finished ∧ rq.aft = some f ∧ f ≤ a :=
  fun pl hpl t r a hr hast q hq =>
    C03_precedence_any_order s0 s hw ha hb0 h hc pl hpl q t (planPreds_mem hq) r a hr hast

theorem C03_precedence_preds (s0 s : Sys) (hw : WFConfig s0) (ha : s0.alg ≠ .oracle)
    (hb0 : s0.buf.hot.stored = [] ∧ s0.buf.hot.scheduled = [] ∧ s0.buf.hot.finished = [] ∧
      s0.buf.cold.stored = [])
    (h : ReachSchedFirst s0 s) (hc : s.crashed = none) :
    ∀ pl ∈ s.plans, ∀ t r a, s.task? t = some r → r.ast = some a → ∀ q ∈ pl.preds t,
      s.cl.isTaskFinished q = true ∧
      ∃ rq f, s.task? q = some rq ∧ rq.status = .finished ∧ rq.aft = some f ∧ f ≤ a :=
  fun pl hpl t r a hr hast q hq =>
    C03_precedence s0 s hw ha hb0 h hc pl hpl q t (planPreds_mem hq) r a hr hast

/-- non-vacuity of (1): a state reachable in the restricted order (creation order inside every
instant) with a started task that has a finished predecessor: recorded finish 3, start 4 -/
example : ∃ s, ReachSchedFirst precW0 s ∧ s.crashed = none ∧
    (s.plans.map (·.edges)) = [[(precA, precB)]] ∧
    (s.task? precB).map (fun r => (r.status, r.ast, r.preds)) = some (.running, some 4, [precA]) ∧
    (s.task? precA).map (fun r => (r.status, r.ast, r.aft)) = some (.finished, some 1, some 3) :=
  ⟨_, precSchedPid_reachSF, precSchedPid_final.1, precSchedPid_final.2.1, precSchedPid_final.2.2.1,
    precSchedPid_final.2.2.2.1⟩

/-- … and the adversarial order (inside instant 2 the body of `precA` ends, THEN its allocation
process polls, THEN `allocate_tasks` runs): the bound `f ≤ a` is met with equality (finish 3,
start 3); that run leaves the restricted order at its 28th block -/
-- F13: before the repair this run reached finish 3, start 2 (the refutation of the exact clause)
example : (∃ s, Reach precW0 s ∧ s.crashed = none ∧
    (s.plans.map (·.edges)) = [[(precA, precB)]] ∧
    (s.task? precB).map (fun r => (r.status, r.ast, r.preds)) = some (.running, some 3, [precA]) ∧
    (s.task? precA).map (fun r => (r.status, r.ast, r.aft)) = some (.finished, some 1, some 3)) ∧
    precSchedFirstAll precSchedAdv precW0.start = false :=
  ⟨⟨_, precSchedAdv_reach, precSchedAdv_final.1, precSchedAdv_final.2.1, precSchedAdv_final.2.2.1,
    precSchedAdv_final.2.2.2.1⟩, precSchedAdv_not_schedFirst⟩

/-! ### (2) the recorded start -/

/-- (2) on trajectories, any order of the blocks.  For the body process of a started workflow
task `t` on machine `m` with cross-machine list `cross`: every task of `cross` is a workflow task
the cluster reports finished and occurs in the predecessor list of `t`'s record, and the recorded
start is `startTime alloc bw arrivals` for some time `alloc`, where `bw` is the bandwidth of `m`
and `arrivals` pairs the recorded finish of each task of `cross` with the volume of its edge into
`t` — by `C03_start_formula` the later of `alloc` and the last `aft + volume / bw`.  (`alloc` is
the time of the body's first block, which is the time of the allocation block: see
`C03_recorded_start_wait_block`, `C03_recorded_start_stamp_block`.) -/
theorem C03_recorded_start (s0 s : Sys) (hw : WFConfig s0) (ha : s0.alg ≠ .oracle)
    (hb0 : s0.buf.hot.stored = [] ∧ s0.buf.hot.scheduled = [] ∧ s0.buf.hot.finished = [] ∧
      s0.buf.cold.stored = [])
    (h : Reach s0 s) (hc : s.crashed = none) :
    ∀ d ∈ s.procs, ∀ t m cross ph tot, d.k = .doWork t m cross ph tot → 2 ≤ ph → IsWf t →
      (∀ x ∈ cross, IsWf x ∧ s.cl.isTaskFinished x = true ∧ ∃ r, s.task? t = some r ∧ x ∈ r.preds) ∧
      ∃ r mm alloc, s.task? t = some r ∧ s.machine? m = some mm ∧
        r.ast = some (startTime alloc mm.bw (crossArr s r cross)) := by
  intro d hd t m cross ph tot hk hph hwf
  obtain ⟨h1, h2⟩ := reach_recorded_start s0 s hw (hb0_bufList hb0) ha h hc d hd t m cross ph tot hk hph hwf
  refine ⟨fun x hx => ?_, h2⟩
  obtain ⟨g1, g2, g3⟩ := h1 x hx
  exact ⟨g1, (finT_iff s x).mp g2, g3⟩

/-- (2), the waits: the recorded start is not before the allocation time, and for every task `x`
of the cross-machine list, not before its recorded finish plus volume / bandwidth -/
theorem C03_recorded_start_waits (s0 s : Sys) (hw : WFConfig s0) (ha : s0.alg ≠ .oracle)
    (hb0 : s0.buf.hot.stored = [] ∧ s0.buf.hot.scheduled = [] ∧ s0.buf.hot.finished = [] ∧
      s0.buf.cold.stored = [])
    (h : Reach s0 s) (hc : s.crashed = none) :
    ∀ d ∈ s.procs, ∀ t m cross ph tot, d.k = .doWork t m cross ph tot → 2 ≤ ph → IsWf t →
      ∃ r mm a, s.task? t = some r ∧ s.machine? m = some mm ∧ r.ast = some a ∧
        ∀ x ∈ cross, ∃ rq f, s.task? x = some rq ∧ rq.aft = some f ∧
          f + (((dictGet r.io x).getD 0 : Nat) : Rat) / (mm.bw : Rat) ≤ a := by
  intro d hd t m cross ph tot hk hph hwf
  have hbuf := hb0_bufList hb0
  obtain ⟨h1, r, mm, alloc, g1, g2, g3⟩ := reach_recorded_start s0 s hw hbuf ha h hc d hd t m cross ph tot hk hph hwf
  have hpr := reach_pr s0 s hw hbuf ha h hc
  refine ⟨r, mm, _, g1, g2, g3, fun x hx => ?_⟩
  obtain ⟨a1, a2, _⟩ := h1 x hx
  obtain ⟨rq, k1, _, k3⟩ := hpr.finRec x a1 a2
  cases hf : rq.aft with
  | none => rw [hf] at k3; simp at k3
  | some f =>
    refine ⟨rq, f, k1, hf, ?_⟩
    have hmem : (f, (dictGet r.io x).getD 0) ∈ crossArr s r cross := by
      unfold crossArr
      refine List.mem_map.mpr ⟨x, hx, ?_⟩
      unfold aftOf
      rw [k1]; simp [hf]
    exact (C03_start_ge alloc mm.bw (crossArr s r cross)).2 _ hmem

/-- (2), the first block of a body with a non-empty cross-machine list, run at time `now`:
nothing is written, and the body is resumed after `startTime now bw arrivals - now` -/
theorem C03_recorded_start_wait_block (s : Sys) (now : Time) (orc : Oracle) (t : Tid) (m : Mid)
    (cross : List Tid) (tot : Nat) (hne : cross ≠ [])
    (hok : ∀ e, (s.doWorkBlock now orc t m cross 0 tot).2.2 ≠ .raised e) :
    ∃ r mm, s.task? t = some r ∧ s.machine? m = some mm ∧
      s.doWorkBlock now orc t m cross 0 tot =
        (s, .doWork t m cross 1 tot, .timeout (startTime now mm.bw (crossArr s r cross) - now)) :=
  dw_wait_block s now orc t m cross tot hne hok

/-- (2), the block that stamps the start (the first block when the cross-machine list is empty,
the second otherwise), run at time `now`: the record of the task gets `ast = now`, and the body
is resumed after `bodyWait total` to stamp the finish -/
theorem C03_recorded_start_stamp_block (s : Sys) (now : Time) (orc : Oracle) (t : Tid) (m : Mid)
    (cross : List Tid) (ph tot : Nat) (hph : ph = 1 ∨ (ph = 0 ∧ cross = []))
    (hok : ∀ e, (s.doWorkBlock now orc t m cross ph tot).2.2 ≠ .raised e) :
    ∃ r' tot', (s.doWorkBlock now orc t m cross ph tot).1.task? t = some r' ∧ r'.ast = some now ∧
      (s.doWorkBlock now orc t m cross ph tot).2.1 = .doWork t m cross 2 tot' ∧
      (s.doWorkBlock now orc t m cross ph tot).2.2 = .timeout ((bodyWait tot' : Nat) : Rat) :=
  dw_start_block s now orc t m cross ph tot hph hok

/-- (2), the last block of a body, run at time `now`: `aft = now + 1`, `ast` untouched -/
theorem C03_recorded_finish_block (s : Sys) (now : Time) (orc : Oracle) (t : Tid) (m : Mid)
    (cross : List Tid) (ph tot : Nat) (hph : 2 ≤ ph) (r : TaskRec) (hr : s.task? t = some r) :
    ∃ r', (s.doWorkBlock now orc t m cross ph tot).1.task? t = some r' ∧ r'.aft = some (now + 1) ∧
      r'.ast = r.ast ∧ (s.doWorkBlock now orc t m cross ph tot).2.2 = .done :=
  dw_end_block s now orc t m cross ph tot hph r hr

/-- non-vacuity of (2): two machines of bandwidth 2, three units of data on the edge.  `precA`
ran on machine 1 (recorded finish 3); `precB` is allocated at t = 4 on machine 0, its body
(process 14) carries the cross-machine list `[precA]`, and the recorded start is
`9/2 = startTime 4 2 [(3, 3)]`, the later of 4 and `3 + 3/2`. -/
example : ∃ s, ReachSchedFirst precW1 s ∧ s.crashed = none ∧
    (s.proc? 14).bind (fun p => precDoWork? p.k) = some (precB, 0, [precA], 2, 1) ∧
    (s.task? precB).map (fun r => (r.ast, r.io)) = some (some (9 / 2), [(precA, 3)]) ∧
    (s.task? precA).map (fun r => (r.status, r.aft)) = some (.finished, some 3) ∧
    (s.machine? 0).map (·.bw) = some 2 ∧ startTime 4 2 [(3, 3)] = 9 / 2 :=
  ⟨_, precSchedXfer_reachSF, precSchedXfer_final.1, precSchedXfer_final.2.1, precSchedXfer_final.2.2.1,
    precSchedXfer_final.2.2.2.1, precSchedXfer_final.2.2.2.2, by decide +kernel⟩

end Sys
end Topsim
