/-
  C10 — simulations are reproducible.
  The only host-dependent ingredient of a run was the iteration order of the
  ready *set* (hash order of string ids).  After the F9 repair the algorithms
  iterate the plan's task list filtered by membership, so their result depends
  on the pool only as a set.  (Determinism of the event order is
  TopsimProps/Kernel.lean; the model itself is a function.)
-/
import TopsimProofs.AlgLemmas

namespace Topsim

/-- two results agree on everything observable -/
def AlgOut.Equiv (a b : Except Err AlgOut) : Prop :=
  match a, b with
  | .ok x, .ok y => x.schedule = y.schedule ∧ x.status = y.status ∧ x.cl = y.cl ∧
                    (∀ t, t ∈ x.pool ↔ t ∈ y.pool)
  | .error e, .error e' => e = e'
  | _, _ => False

theorem C10_queue_order_independent (cl : Cluster) (plan : Plan) (view : Tid → TaskView)
    (sched : List (Tid × Mid)) (pool₁ pool₂ : List Tid) (h : ∀ t, t ∈ pool₁ ↔ t ∈ pool₂) :
    AlgOut.Equiv (Alg.queueRun cl plan view sched pool₁) (Alg.queueRun cl plan view sched pool₂) :=
  queue_order_independent cl plan view sched pool₁ pool₂ h

theorem C10_batch_order_independent (cl : Cluster) (plan : Plan) (view : Tid → TaskView)
    (parts minPer : Nat) (split : Option (List (Oid × Nat × Nat)))
    (sched : List (Tid × Mid)) (pool₁ pool₂ : List Tid) (h : ∀ t, t ∈ pool₁ ↔ t ∈ pool₂) :
    AlgOut.Equiv (Alg.batchRun cl plan view parts minPer split sched pool₁)
                 (Alg.batchRun cl plan view parts minPer split sched pool₂) :=
  batch_order_independent cl plan view parts minPer split sched pool₁ pool₂ h

theorem C10_dynamic_order_independent (cl : Cluster) (plan : Plan) (view : Tid → TaskView)
    (sched : List (Tid × Mid)) (pool₁ pool₂ : List Tid) (h : ∀ t, t ∈ pool₁ ↔ t ∈ pool₂) :
    AlgOut.Equiv (Alg.dynamicRun cl plan view sched pool₁) (Alg.dynamicRun cl plan view sched pool₂) :=
  dynamic_order_independent cl plan view sched pool₁ pool₂ h

/-- Greedy never looks at the pool at all -/
theorem C10_greedy_ignores_pool (cl : Cluster) (plan : Plan) (view : Tid → TaskView)
    (sched : List (Tid × Mid)) (pool₁ pool₂ : List Tid) :
    (Alg.greedyRun cl plan view sched pool₁).map (fun o => (o.schedule, o.status)) =
    (Alg.greedyRun cl plan view sched pool₂).map (fun o => (o.schedule, o.status)) :=
  greedy_ignores_pool cl plan view sched pool₁ pool₂

/-- Before the F9 repair the loop ran over the pool in its own (hash) order:
the first-free rule then gives different maps for different orders. -/
def firstFreeOverPoolOrder (pool : List Tid) (machines : List Mid) : List (Tid × Mid) :=
  pool.zip machines
theorem C10_old_order_dependent :
    firstFreeOverPoolOrder [.raw 1, .raw 2] [0, 1] ≠ firstFreeOverPoolOrder [.raw 2, .raw 1] [0, 1] := by
  decide

end Topsim
