/-
  C05, liveness — BatchProcessing (`alg = .batch parts minPer split`), on the deterministic simulator
  (L3, SimPy's own (time, priority, insertion id) order), BatchPlanning.  The counterpart of
  TopsimProps/C05Live.lean (QueueProcessing); the vocabulary (`simAt`, `ilSimSteps`, `NoRaise`, H1 =
  `NoTierCfg`, H2 = `OneAdmission`, H4 = `IsTopo`) is the one defined there.

  Hypotheses of the main theorem, and why each is needed.
  * `WFConfig`, `Feasible`, `hb0`, `hfull`, `cold.transfer = none`, `halted = false`, H1, H2 (for "no
    block raises" only), H4, `staticPlan = false`: exactly as for QueueProcessing (C05Live.lean).
    `Feasible` contains the batch clause: without a split `0 < partitions` (else ZeroDivisionError) and
    `max 1 minPer ≤ floor(machines / partitions)` (else no reservation is ever large enough); with a
    split every observation is in it (else KeyError), `1 ≤ lo ≤ hi`, `lo ≤ machines` (else
    RuntimeError), `minPer ≤ hi`.
  * NEW, `hmin`: with a split, `minPer ≤ machines`.  `Feasible` does not say so, and without it the run
    polls for ever without raising: `C05_batch_needs_min_le_machines` (`lbHangW`: one machine,
    `min_resources_per_workflow = 2`, split `(1, 5)`; `_max_resource_provision` returns
    `min(available, hi) ≤ machines < minPer` and `_provision_resources` returns False at every poll).

  What is proved.
  (1) `C05_no_silent_hang_batch_simpy`: after some number of kernel steps the run has raised, or it is
      at `is_finished()` with nothing raised.
  (2) `C05_no_raise_batch_simpy_noH2`: under H1 no block ever raises (F14: H2 is no longer needed;
      `C05_no_raise_batch_simpy`, `C05_terminates_batch_simpy` keep the statements with H2).  The raise sites of the
      scheduler side under BatchProcessing: `_max_resource_provision` (KeyError / RuntimeError /
      ZeroDivisionError: excluded by `Feasible`), `provision_batch_resources` (IndexError /
      RuntimeError: the size asked for is `≤ available`, the machines are taken from the available
      list), `_process_current_schedule` (as for the queue), and `allocate_task_to_cluster`: by SimPy's
      order its first block finds the machine idle in the reservation of its observation
      (`C05_allocTask_on_reserved_simpy`) — BatchProcessing never leaves a proposal behind
      (`Sys.lb_pcs_nil`), so every proposal is for a machine idle in the reservation at that instant.
  (3) `C05_terminates_batch_simpy_noH2` — THE TARGET: ∃ n, after n kernel steps
      `isFinished = true ∧ crashed = none`.
  (4) stage lemmas: `C05_allocTasks_progress_batch_partial` (a block of `allocate_tasks` in a quiet
      state removes the observation, or starts a task, or — no reservation held, none can be made —
      leaves the cluster alone); `C05_batch_regime_partial` (the waiting is finite: from some index on
      no reservation exists and NO `allocate_tasks` process is running — a request cannot be refused
      for ever: the holders of reservations make progress and release, the ingest machines come back,
      and with every machine available and no reservation counted a feasible configuration's request is
      granted); `C05_reservation_has_idle_machine_partial`.

  The double release at workflow end (`BatchProcessing.run` releases, then `allocate_tasks` releases
  again) is harmless: the first release erases the entry (the idle list is the whole reservation, ≥ 1
  machine: `C05_reservation_has_idle_machine_partial`), the second finds none.  A machine that finishes
  a task returns to the idle list of the reservation, which exists as long as a task of the workflow is
  unfinished (C09).

  Not proved: a bound on the time.
-/
import TopsimProofs.LiveB20
import TopsimProofs.LiveB1

namespace Topsim

open KState Sys

theorem Sys.batchMinOk_of {s0 : Sys} {parts minPer : Nat} {split : Option (List (Oid × Nat × Nat))}
    (halg : s0.alg = .batch parts minPer split)
    (hmin : ∀ sp, split = some sp → minPer ≤ s0.machines.length) : Sys.BatchMinOk s0 := by
  intro p m sp e
  rw [halg] at e
  injection e with e1 e2 e3
  rw [← e2]
  exact hmin sp e3

/-! ### (1) no silent hang -/

/-- **No silent hang, BatchProcessing.**  After some number `n` of kernel steps the run has raised an
exception, or it is at `is_finished()` with no exception raised (and the run up to there is one
uninterrupted `env.run`).  Any delay table / delay script in `env`. -/
theorem C05_no_silent_hang_batch_simpy (env : SimEnv) (s0 : Sys) (hw : Sys.WFConfig s0)
    (hfe : Sys.Feasible s0)
    (hb0 : s0.buf.hot.stored = [] ∧ s0.buf.hot.scheduled = [] ∧ s0.buf.hot.finished = [] ∧
      s0.buf.cold.stored = [])
    (hfull : s0.buf.size = [] ∧ s0.buf.hot.cur = s0.buf.hot.total ∧ s0.buf.cold.cur = s0.buf.cold.total)
    (hct : s0.buf.cold.transfer = none) (hh0 : s0.halted = false)
    (hH1 : Sys.NoTierCfg s0) {parts minPer : Nat} {split : Option (List (Oid × Nat × Nat))}
    (halg : s0.alg = .batch parts minPer split)
    (hmin : ∀ sp, split = some sp → minPer ≤ s0.machines.length)
    (hstat : s0.staticPlan = false) (htopo : ∀ o ∈ s0.obs, IsTopo o.wf) :
    ∃ n, (ilSimSteps env n (SimState.start s0)).st.crashed ≠ none ∨
      ((ilSimSteps env n (SimState.start s0)).st.isFinished = true ∧
        (ilSimSteps env n (SimState.start s0)).st.crashed = none ∧
        SimRun env s0 (ilSimSteps env n (SimState.start s0))) :=
  live_no_silent_hang_B env s0 hw hfe hb0 hfull hct hh0 hH1 ⟨parts, minPer, split, halg⟩
    (Sys.batchMinOk_of halg hmin) hstat htopo

/-- the target statement with the run-level hypothesis `hnr` (no block raises) in the place of H2 -/
theorem C05_terminates_batch_simpy_of_noRaise (env : SimEnv) (s0 : Sys) (hw : Sys.WFConfig s0)
    (hfe : Sys.Feasible s0)
    (hb0 : s0.buf.hot.stored = [] ∧ s0.buf.hot.scheduled = [] ∧ s0.buf.hot.finished = [] ∧
      s0.buf.cold.stored = [])
    (hfull : s0.buf.size = [] ∧ s0.buf.hot.cur = s0.buf.hot.total ∧ s0.buf.cold.cur = s0.buf.cold.total)
    (hct : s0.buf.cold.transfer = none) (hh0 : s0.halted = false)
    (hH1 : Sys.NoTierCfg s0) {parts minPer : Nat} {split : Option (List (Oid × Nat × Nat))}
    (halg : s0.alg = .batch parts minPer split)
    (hmin : ∀ sp, split = some sp → minPer ≤ s0.machines.length)
    (hstat : s0.staticPlan = false) (htopo : ∀ o ∈ s0.obs, IsTopo o.wf)
    (hnr : ∀ n, (ilSimSteps env n (SimState.start s0)).st.crashed = none) :
    ∃ n, (ilSimSteps env n (SimState.start s0)).st.isFinished = true ∧
      (ilSimSteps env n (SimState.start s0)).st.crashed = none ∧
      SimRun env s0 (ilSimSteps env n (SimState.start s0)) := by
  obtain ⟨n, h | h⟩ := C05_no_silent_hang_batch_simpy env s0 hw hfe hb0 hfull hct hh0 hH1 halg hmin hstat htopo
  · exact absurd (hnr n) h
  · exact ⟨n, h⟩

/-! ### (2), (3) no block raises; termination -/

/-- F14 — H2 (`OneAdmission`) dropped, the repaired admission test makes it unnecessary.  **No block raises**: BatchProcessing, batch planning, well-formed feasible configuration (`hmin` for
a split), initially empty full-free buffer, H1 (no tiering);
any environment. -/
theorem C05_no_raise_batch_simpy_noH2 (env : SimEnv) (s0 : Sys) (hw : Sys.WFConfig s0)
    (hfe : Sys.Feasible s0)
    (hb0 : s0.buf.hot.stored = [] ∧ s0.buf.hot.scheduled = [] ∧ s0.buf.hot.finished = [] ∧
      s0.buf.cold.stored = [])
    (hfull : s0.buf.size = [] ∧ s0.buf.hot.cur = s0.buf.hot.total ∧ s0.buf.cold.cur = s0.buf.cold.total)
    (hct : s0.buf.cold.transfer = none) (hh0 : s0.halted = false)
    (hH1 : Sys.NoTierCfg s0)
    {parts minPer : Nat} {split : Option (List (Oid × Nat × Nat))}
    (halg : s0.alg = .batch parts minPer split)
    (hmin : ∀ sp, split = some sp → minPer ≤ s0.machines.length)
    (hstat : s0.staticPlan = false) (htopo : ∀ o ∈ s0.obs, IsTopo o.wf) (n : Nat) :
    (ilSimSteps env n (SimState.start s0)).st.crashed = none := by
  have := live_noRaise_B (env := env)
    ⟨hw, hfe, hb0, hfull, hct, hH1, ⟨parts, minPer, split, halg⟩, hstat, htopo, hh0,
      Sys.batchMinOk_of halg hmin⟩ n
  rw [simAt_eq_ilSimSteps] at this
  exact this

-- F14: H2 is no longer needed (`…_noH2` above); statement kept verbatim
/-- **No block raises**: BatchProcessing, batch planning, well-formed feasible configuration (`hmin` for
a split), initially empty full-free buffer, H1 (no tiering), H2 (one admission per telescope block);
any environment. -/
theorem C05_no_raise_batch_simpy (env : SimEnv) (s0 : Sys) (hw : Sys.WFConfig s0)
    (hfe : Sys.Feasible s0)
    (hb0 : s0.buf.hot.stored = [] ∧ s0.buf.hot.scheduled = [] ∧ s0.buf.hot.finished = [] ∧
      s0.buf.cold.stored = [])
    (hfull : s0.buf.size = [] ∧ s0.buf.hot.cur = s0.buf.hot.total ∧ s0.buf.cold.cur = s0.buf.cold.total)
    (hct : s0.buf.cold.transfer = none) (hh0 : s0.halted = false)
    (hH1 : Sys.NoTierCfg s0) (hH2 : Sys.OneAdmission s0)
    {parts minPer : Nat} {split : Option (List (Oid × Nat × Nat))}
    (halg : s0.alg = .batch parts minPer split)
    (hmin : ∀ sp, split = some sp → minPer ≤ s0.machines.length)
    (hstat : s0.staticPlan = false) (htopo : ∀ o ∈ s0.obs, IsTopo o.wf) (n : Nat) :
    (ilSimSteps env n (SimState.start s0)).st.crashed = none := by
  have _ := hH2
  exact C05_no_raise_batch_simpy_noH2 env s0 hw hfe hb0 hfull hct hh0 hH1 halg hmin hstat htopo n

/-- F14 — H2 (`OneAdmission`) dropped, the repaired admission test makes it unnecessary.  **`C05_terminates_batch_simpy`** — THE TARGET.  For `s0.alg = .batch parts minPer split`,
`WFConfig`, `Feasible`, initial buffers empty / full-free (`hb0`, `hfull`), `cold.transfer = none`,
`halted = false`, H1 (`NoTierCfg`), H4 (`IsTopo`), batch planning, `hmin` (with a
split the configured minimum does not exceed the number of machines), any `env`: there is `n` such that
the state after `n` kernel steps has `isFinished = true ∧ crashed = none` (and the run up to there is
one uninterrupted `env.run`). -/
theorem C05_terminates_batch_simpy_noH2 (env : SimEnv) (s0 : Sys) (hw : Sys.WFConfig s0)
    (hfe : Sys.Feasible s0)
    (hb0 : s0.buf.hot.stored = [] ∧ s0.buf.hot.scheduled = [] ∧ s0.buf.hot.finished = [] ∧
      s0.buf.cold.stored = [])
    (hfull : s0.buf.size = [] ∧ s0.buf.hot.cur = s0.buf.hot.total ∧ s0.buf.cold.cur = s0.buf.cold.total)
    (hct : s0.buf.cold.transfer = none) (hh0 : s0.halted = false)
    (hH1 : Sys.NoTierCfg s0)
    {parts minPer : Nat} {split : Option (List (Oid × Nat × Nat))}
    (halg : s0.alg = .batch parts minPer split)
    (hmin : ∀ sp, split = some sp → minPer ≤ s0.machines.length)
    (hstat : s0.staticPlan = false) (htopo : ∀ o ∈ s0.obs, IsTopo o.wf) :
    ∃ n, (ilSimSteps env n (SimState.start s0)).st.isFinished = true ∧
      (ilSimSteps env n (SimState.start s0)).st.crashed = none ∧
      SimRun env s0 (ilSimSteps env n (SimState.start s0)) :=
  live_terminates_cfg_B
    ⟨hw, hfe, hb0, hfull, hct, hH1, ⟨parts, minPer, split, halg⟩, hstat, htopo, hh0,
      Sys.batchMinOk_of halg hmin⟩

-- F14: H2 is no longer needed (`…_noH2` above); statement kept verbatim
/-- **`C05_terminates_batch_simpy`** — THE TARGET.  For `s0.alg = .batch parts minPer split`,
`WFConfig`, `Feasible`, initial buffers empty / full-free (`hb0`, `hfull`), `cold.transfer = none`,
`halted = false`, H1 (`NoTierCfg`), H2 (`OneAdmission`), H4 (`IsTopo`), batch planning, `hmin` (with a
split the configured minimum does not exceed the number of machines), any `env`: there is `n` such that
the state after `n` kernel steps has `isFinished = true ∧ crashed = none` (and the run up to there is
one uninterrupted `env.run`). -/
theorem C05_terminates_batch_simpy (env : SimEnv) (s0 : Sys) (hw : Sys.WFConfig s0)
    (hfe : Sys.Feasible s0)
    (hb0 : s0.buf.hot.stored = [] ∧ s0.buf.hot.scheduled = [] ∧ s0.buf.hot.finished = [] ∧
      s0.buf.cold.stored = [])
    (hfull : s0.buf.size = [] ∧ s0.buf.hot.cur = s0.buf.hot.total ∧ s0.buf.cold.cur = s0.buf.cold.total)
    (hct : s0.buf.cold.transfer = none) (hh0 : s0.halted = false)
    (hH1 : Sys.NoTierCfg s0) (hH2 : Sys.OneAdmission s0)
    {parts minPer : Nat} {split : Option (List (Oid × Nat × Nat))}
    (halg : s0.alg = .batch parts minPer split)
    (hmin : ∀ sp, split = some sp → minPer ≤ s0.machines.length)
    (hstat : s0.staticPlan = false) (htopo : ∀ o ∈ s0.obs, IsTopo o.wf) :
    ∃ n, (ilSimSteps env n (SimState.start s0)).st.isFinished = true ∧
      (ilSimSteps env n (SimState.start s0)).st.crashed = none ∧
      SimRun env s0 (ilSimSteps env n (SimState.start s0)) := by
  have _ := hH2
  exact C05_terminates_batch_simpy_noH2 env s0 hw hfe hb0 hfull hct hh0 hH1 halg hmin hstat htopo

/-- the order fact behind `allocate_task_to_cluster` not raising under BatchProcessing: when the first
block of a scheduler-side allocation process runs, its machine is idle in the reservation of the
observation the task is allocated for -/
theorem C05_allocTask_on_reserved_simpy {env : SimEnv} {s0 : Sys} (N : NcCfgB env s0) (n : Nat)
    (hc : (simAt env s0 n).st.crashed = none) {e : HEntry} {p : Proc}
    (hpk : (simAt env s0 n).peek = some e) (hpp : (simAt env s0 n).st.proc? e.pid = some p)
    (ha : p.alive = true) {t : Tid} {m : Mid} {preds : List Tid} {obs : Option Oid} {ret : Nat}
    (hk : p.k = .allocTask t m preds obs false ret) (hpc : p.pc = 0) :
    m ∈ (simAt env s0 n).st.cl.idleOf obs :=
  nc_allocTask_idle_B N n hc hpk hpp ha hk hpc

/-! ### (4) the stages (trajectory level; `LiveCfgB` = the hypotheses of (1) and "no block raises") -/

/-- **progress of `allocate_tasks` under BatchProcessing.**  A block of the `allocate_tasks` process of an
observation not yet removed, in a state with no allocation process or task body alive and no machine
occupied or ingesting: it removes the observation (its pruned plan is empty; the reservation is
released), or starts one more task of its workflow on a machine of its reservation — the one it holds,
or the one it obtains in this block (the record of a node goes from UNSCHEDULED to SCHEDULED) —, or
the observation holds no reservation and `_provision_resources` returns False (`numProv = parts`, or
too few machines available): then the block leaves the cluster exactly as it is. -/
theorem C05_allocTasks_progress_batch_partial {env : SimEnv} {s0 : Sys} (C : LiveCfgB env s0)
    (hh0 : s0.halted = false) (n : Nat) {e : HEntry} {p : Proc}
    (hpk : (simAt env s0 n).peek = some e) (hpp : (simAt env s0 n).st.proc? e.pid = some p)
    (ha : p.alive = true) {o : Oid} {sc pa : List (Tid × Mid)} {po : List Tid}
    (hk : p.k = .allocTasks o sc pa po false) (hrm : o ∉ (simAt env s0 n).st.buf.hot.finished)
    (hocc : (simAt env s0 n).st.cl.occupied = [] ∧ (simAt env s0 n).st.cl.ingest = [])
    (hq : ∀ q ∈ (simAt env s0 n).st.procs, q.alive = true → q.k.tag ≠ "allocTask" ∧ q.k.tag ≠ "doWork")
    {parts minPer : Nat} {split : Option (List (Oid × Nat × Nat))} (halg : s0.alg = .batch parts minPer split) :
    o ∈ (simAt env s0 (n + 1)).st.buf.hot.finished ∨
    (∃ ob ∈ s0.obs, ob.id = o ∧ ∃ node ∈ ob.wf.topo,
      ¬ Sys.PSch o node (simAt env s0 n).st ∧ Sys.PSch o node (simAt env s0 (n + 1)).st) ∨
    (Alg.provisionResources (simAt env s0 n).st.cl parts minPer split o = .ok ((simAt env s0 n).st.cl, false) ∧
      (simAt env s0 (n + 1)).st.cl = (simAt env s0 n).st.cl) :=
  live_allocTasks_progress_B C (liveKernel_B C hh0) n hpk hpp ha hk hrm hocc hq halg

/-- in a state without live allocation process a reservation consists of its idle machines, at least
one (so `release_batch_resources` erases it and decrements the counter) -/
theorem C05_reservation_has_idle_machine_partial {env : SimEnv} {s0 : Sys} (C : LiveCfgB env s0)
    (hh0 : s0.halted = false) (n : Nat)
    (hq : ∀ q ∈ (simAt env s0 n).st.procs, q.alive = true → q.k.tag ≠ "allocTask")
    {o : Oid} {l : List Mid} (hl : dictGet (simAt env s0 n).st.cl.idle o = some l) : l ≠ [] :=
  live_res_idle_B C (liveKernel_B C hh0) n hq hl

/-- **The waiting is finite.**  In a run of BatchProcessing that never raises, from some index on: no
worker process (supervisor, provisioning, stream, allocation process, task body) is alive, every
admitted observation is FINISHED, no reservation exists, and no `allocate_tasks` process is running —
no request for a reservation is refused for ever. -/
theorem C05_batch_regime_partial {env : SimEnv} {s0 : Sys} (C : LiveCfgB env s0) (hh0 : s0.halted = false) :
    ∃ N, (∀ n, N ≤ n → (simAt env s0 n).st.NoWorker) ∧
      (∀ n, N ≤ n → ∀ ob ∈ (simAt env s0 n).st.obs, ob.ast ≠ none → ob.status = .finished) ∧
      (∀ n, N ≤ n → (simAt env s0 n).st.cl.idle = []) ∧
      (∀ n, N ≤ n → ∀ q ∈ (simAt env s0 n).st.procs, q.alive = true →
        ∀ o sc pa po, q.k ≠ .allocTasks o sc pa po false) :=
  let ⟨N, _, h1, h2, h3, h4⟩ :=
    live_batch_regime_B C (liveKernel_B C hh0) (liveParts_B C (liveKernel_B C hh0))
  ⟨N, h1, h2, h3, h4⟩

/-! ### `hmin` is needed -/

/-- **`Feasible` alone does not exclude a silent hang for a split.**  Configuration `lbHangW` (one
machine; BatchProcessing with one partition, `min_resources_per_workflow = 2`,
`resource_split = {0: (1, 5)}`; one observation: one array, one ingest machine, one timestep, rate 1,
workflow = one node; buffers 1000 / 1000) is well formed, feasible, satisfies H1, H2, H4, batch
planning, `cold.transfer = none`, `halted = false` — and not `hmin`: `2 > 1` machine.  Its run (empty
environment) up to every event before t = 60: nothing has raised, it is not at `is_finished()`, no
reservation exists, the machine is available, the observation is ingested and FINISHED, its workflow
task is UNSCHEDULED, the observation is still in the scheduler's queue, and the next event is due at
t = 60 (the run goes on). -/
theorem C05_batch_needs_min_le_machines :
    Sys.WFConfig lbHangW ∧ Sys.Feasible lbHangW ∧ Sys.NoTierCfg lbHangW ∧ Sys.OneAdmission lbHangW ∧
    (∀ o ∈ lbHangW.obs, IsTopo o.wf) ∧ lbHangW.alg = .batch 1 2 (some [(0, 1, 5)]) ∧
    lbHangW.staticPlan = false ∧ lbHangW.buf.cold.transfer = none ∧ lbHangW.halted = false ∧
    ¬ (2 ≤ lbHangW.machines.length) ∧
    SimRun {} lbHangW lbHangK ∧ lbHangK.st.crashed = none ∧ lbHangK.st.halted = false ∧
    lbHangK.st.isFinished = false ∧ lbHangK.st.cl.idle = [] ∧ lbHangK.st.cl.numProv = 0 ∧
    lbHangK.st.cl.available = [0] ∧ lbHangK.st.queue = [0] ∧
    lbHangK.st.tasks.map (fun r => (r.id, r.status)) =
      [(.ingest 0 0, .finished), (.wf 0 1 0, .unscheduled)] ∧
    (lbHangK.peek.map (·.time)) = some 60 :=
  ⟨lbHangW_wf, lbHangW_feasible, lbHangW_h1, lbHangW_h2, lbHangW_topo, rfl, rfl, rfl, rfl, by decide,
    lbHangK_run, lbHangK_spec.1, lbHangK_spec.2.1, lbHangK_spec.2.2.1, lbHangK_spec.2.2.2.1,
    lbHangK_spec.2.2.2.2.1, lbHangK_spec.2.2.2.2.2.1, lbHangK_spec.2.2.2.2.2.2.2.2.1,
    lbHangK_spec.2.2.2.2.2.2.2.2.2.1, lbHangK_spec.2.2.2.2.2.2.2.2.2.2.2⟩

/-! ### the hypotheses are satisfiable -/

/-- the same configuration with `min_resources_per_workflow = 1` -/
def lbOkW : Sys := { lbHangW with alg := .batch 1 1 (some [(0, 1, 5)]) }

/-- the hypotheses of the main theorem hold of `lbOkW`; hence its run reaches `is_finished()` with nothing
raised -/
example : ∃ n, (ilSimSteps {} n (SimState.start lbOkW)).st.isFinished = true ∧
    (ilSimSteps {} n (SimState.start lbOkW)).st.crashed = none ∧
    SimRun {} lbOkW (ilSimSteps {} n (SimState.start lbOkW)) := by
  refine C05_terminates_batch_simpy {} lbOkW ?_ ?_ ⟨rfl, rfl, rfl, rfl⟩ ⟨rfl, rfl, rfl⟩ rfl rfl ?_ ?_
    (parts := 1) (minPer := 1) (split := some [(0, 1, 5)]) rfl ?_ rfl ?_
  · exact ⟨lbHangW_wf.machinesNodup, lbHangW_wf.clInit, lbHangW_wf.obsNodup, lbHangW_wf.obsWaiting,
      lbHangW_wf.fresh⟩
  · have h := lbHangW_feasible
    refine ⟨h.1, h.2.1, h.2.2.1, ?_⟩
    show 0 < 1 ∧ ∀ o ∈ lbHangW.obs, ∃ lo hi, dictGet [(0, 1, 5)] o.id = some (lo, hi) ∧ 1 ≤ lo ∧ lo ≤ hi ∧
      lo ≤ lbHangW.machines.length ∧ 1 ≤ hi
    refine ⟨by decide, ?_⟩
    intro o ho
    simp only [lbHangW, List.mem_cons, List.not_mem_nil, or_false] at ho
    subst ho
    exact ⟨1, 5, rfl, by decide, by decide, by decide, by decide⟩
  · exact lbHangW_h1
  · exact lbHangW_h2
  · intro sp _
    decide
  · exact lbHangW_topo

end Topsim
