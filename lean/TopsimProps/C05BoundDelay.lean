/-
  C05, the numeric clause UNDER A DELAY MODEL — "for every finite delay pattern the run reaches
  `is_finished()` within the serial bound, the task terms being the DELAYED runtimes" — for
  QueueProcessing (BatchPlanning) on the deterministic simulator (L3), for an ARBITRARY environment
  `env : SimEnv` (any delay table, any delay script, both, or none).  Generalises
  `C05_bound_queue_simpy` (TopsimProps/C05Bound.lean), which needs `env.delayTable = []` and
  `env.delayScript = []`.

  How a delay reaches a task (`Sys.doWorkBlock`, `SimEnv.oracle`, `SimEnv.bodyTotal`).  The body of a
  workflow task whose nominal duration ON THE MACHINE IT WAS GIVEN is `dur` is handed the total
      table[dur]              when the delay table has an entry for `dur` (the script is then NOT used),
      dur + script[k % len]   otherwise, when the script is not empty (`k` = number of workflow bodies
                              started before it),
      dur                     otherwise;
  ingest tasks carry no delay.  The body occupies its machine for `max 1 total` time steps.

  The bound.  `SimEnv.boundDTot env dur` = `table[dur]` if there is an entry, else `dur + max script`
  (`max [] = 0`): the largest total over all `k` (`C05_delay_total_le`).  Which machine a task gets is
  decided at run time and a table need not be monotone (the image of the runtime on a FAST machine can
  be the largest one), so a task with work `(comp, data)` is charged
      boundDOcc env s0 comp data = max 1 (max over mm ∈ s0.machines of boundDTot env (max (comp / mm.cpu) (data / mm.bw))).
  `Sys.serialBoundD env s0` is `Sys.serialBound s0` (same latency constant 3, same tier-transfer and
  transfer-wait terms) with that charge in the place of the runtime on the slowest machine: a closed
  expression of the configuration and the environment.

  What is proved.
  (1) `C05_bound_queue_delay_simpy` — THE TARGET: under the hypotheses of
      `C05_terminates_queue_simpy_noH2` and for ANY `env` there is `n` such that the state after `n`
      kernel steps is at `is_finished()`, nothing has raised, the run up to there is one uninterrupted
      `env.run`, and the clock is `≤ Sys.serialBoundD env s0`.  `C05_bound_queue_delay_statement` is
      the clause as a `Prop`, `C05_bound_queue_delay_statement_holds`: no counterexample exists.
  (2) `serialBoundD_nodelay` — without a delay model `Sys.serialBoundD env s0 ≤ Sys.serialBound s0`
      (machines with positive speeds, which `Sys.Feasible` contains — needed:
      `serialBoundD_nodelay_needs_pos`), so (1) implies the old theorem:
      `C05_bound_queue_simpy_from_delay`.
  (3) `C05_bound_queue_delay_sharp_simpy` — the same with the smaller number
      `C05_sharpBoundD env s0 = latest + Σ_obs (duration + 3 + Σ_nodes (boundDOcc + ⌈max transfer / slowest bw⌉ + 1))`.
  (4) the delayed terms are needed: `C05_serialBound_exceeded_under_delay` — on configuration `c04W1`
      with the environment `c05DelayEnv` (table `2 ↦ 20`, script `[3]`) EVERY index at which the run is
      at `is_finished()` has its clock beyond `Sys.serialBound c04W1 = 15`; so the old clause without
      its no-delay hypotheses is false, `C05_bound_queue_anyenv_statement_false`.  The run finishes
      at clock 28 ≤ `C05_sharpBoundD = 30` ≤ `Sys.serialBoundD = 36` (`C05_delay_witness_run`).
  (5) timed stage lemmas with delayed durations: `C05_bound_invariant_delay_simpy` (accounting
      invariant `clock ≤ latest + V_delayed`), `C05_worker_deadline_delay_simpy` (every live worker
      ends by `latest + V_delayed - 1`), `C05_delay_total_le`, `C05_delayed_occupancy_simpy`.

  Before proving, the statement was evaluated with the executable model on 3 000 random feasible
  configurations (1–3 machines of different speeds, 1–3 observations, workflows of 0–4 nodes with
  zero-work nodes, random NON-monotone tables that also shorten, scripts of length 0–5 against 0–12
  tasks, table only / script only / both) and on ten hand-made adversarial ones (zero-runtime tasks
  lengthened by `0 ↦ 7` or by a script, a fast machine whose table image is the largest, scripts longer
  and shorter than the number of tasks): every run finished within `C05_sharpBoundD`; 72 of the random
  runs exceed the un-delayed `Sys.serialBound`.

  How (TopsimProofs/BoundD1 … BoundD6): the accounting of Bound1–10 with the weight of a task start
  `boundWAT` replaced by `boundDWAT` (delayed occupancy + largest transfer wait + 1).  Re-proved for
  the delayed duration: the algebra of the weight (BoundD1), its arithmetic (BoundD2), the ingest-side
  deadline (BoundD3), the invariant of the workflow-task workers and its step (BoundD4: the duration
  enters only where a body starts, `boundD_tw_occ_le`), along the run (BoundD5), the assembly (BoundD6).
  Reused: whole-instant wakes (Bound3), idle states (Bound7), persistence of enabled pollers (Bound8) —
  transferred to the delayed weight because the two weights change at the same steps
  (`boundD_v_lt_of_lt`, `boundD_v_eq_of_eq`).

  Not proved here: the bound for the other three algorithms.
-/
import TopsimProps.C05Bound
import TopsimProofs.BoundD7

namespace Topsim

open KState Sys

/-- **`C05_bound_queue_delay_simpy`** — THE TARGET.  Queue algorithm, batch planning, well-formed
feasible configuration, initially empty full-free buffer, H1 (`NoTierCfg`), H4 (`IsTopo`), ANY delay
environment: after some number `n` of kernel steps the run is at `is_finished()`, nothing has raised,
and the simulated clock is within the delayed serial bound. -/
theorem C05_bound_queue_delay_simpy (env : SimEnv) (s0 : Sys) (hw : Sys.WFConfig s0)
    (hfe : Sys.Feasible s0)
    (hb0 : s0.buf.hot.stored = [] ∧ s0.buf.hot.scheduled = [] ∧ s0.buf.hot.finished = [] ∧
      s0.buf.cold.stored = [])
    (hfull : s0.buf.size = [] ∧ s0.buf.hot.cur = s0.buf.hot.total ∧ s0.buf.cold.cur = s0.buf.cold.total)
    (hct : s0.buf.cold.transfer = none) (hh0 : s0.halted = false)
    (hH1 : Sys.NoTierCfg s0) (halg : s0.alg = .queue)
    (hstat : s0.staticPlan = false) (htopo : ∀ o ∈ s0.obs, IsTopo o.wf) :
    ∃ n, (ilSimSteps env n (SimState.start s0)).st.isFinished = true ∧
      (ilSimSteps env n (SimState.start s0)).st.crashed = none ∧
      SimRun env s0 (ilSimSteps env n (SimState.start s0)) ∧
      C05_clock env s0 n ≤ ((Sys.serialBoundD env s0 : Nat) : Time) := by
  obtain ⟨n, h1, h2, h3, h4⟩ :=
    boundD_queue_clock (env := env) ⟨hw, hfe, hb0, hfull, hct, hH1, halg, hstat, htopo, hh0⟩
  rw [simAt_eq_ilSimSteps] at h1 h2 h3
  exact ⟨n, h1, h2, h3, h4⟩

/-- the statement of the numeric clause under a delay model, as a `Prop` -/
def C05_bound_queue_delay_statement : Prop :=
  ∀ (env : SimEnv) (s0 : Sys), Sys.WFConfig s0 → Sys.Feasible s0 →
    (s0.buf.hot.stored = [] ∧ s0.buf.hot.scheduled = [] ∧ s0.buf.hot.finished = [] ∧
      s0.buf.cold.stored = []) →
    (s0.buf.size = [] ∧ s0.buf.hot.cur = s0.buf.hot.total ∧ s0.buf.cold.cur = s0.buf.cold.total) →
    s0.buf.cold.transfer = none → s0.halted = false → Sys.NoTierCfg s0 → s0.alg = .queue →
    s0.staticPlan = false → (∀ o ∈ s0.obs, IsTopo o.wf) →
    ∃ n, (ilSimSteps env n (SimState.start s0)).st.isFinished = true ∧
      (ilSimSteps env n (SimState.start s0)).st.crashed = none ∧
      C05_clock env s0 n ≤ ((Sys.serialBoundD env s0 : Nat) : Time)

/-- the clause holds as stated: there is no counterexample -/
theorem C05_bound_queue_delay_statement_holds : C05_bound_queue_delay_statement := by
  intro env s0 hw hfe hb0 hfull hct hh0 hH1 halg hstat htopo
  obtain ⟨n, h1, h2, _, h4⟩ :=
    C05_bound_queue_delay_simpy env s0 hw hfe hb0 hfull hct hh0 hH1 halg hstat htopo
  exact ⟨n, h1, h2, h4⟩

/-! ### without a delay model the new bound is the old one -/

/-- **Without a delay model the delayed serial bound is within the serial bound** (for machines with
positive speeds). -/
theorem serialBoundD_nodelay (env : SimEnv) (s0 : Sys) (hd1 : env.delayTable = [])
    (hd2 : env.delayScript = []) (hpos : ∀ m ∈ s0.machines, 0 < m.cpu ∧ 0 < m.bw) :
    Sys.serialBoundD env s0 ≤ Sys.serialBound s0 :=
  boundD_serial_nodelay hd1 hd2 s0 hpos

/-- … in particular for a feasible configuration -/
theorem serialBoundD_nodelay_feasible (env : SimEnv) (s0 : Sys) (hfe : Sys.Feasible s0)
    (hd1 : env.delayTable = []) (hd2 : env.delayScript = []) :
    Sys.serialBoundD env s0 ≤ Sys.serialBound s0 :=
  serialBoundD_nodelay env s0 hd1 hd2 hfe.2.1

/-- the positivity of the speeds is needed for the comparison: with a machine of speed 0 (`comp / 0 = 0`
in the serial bound's "slowest machine" term, which the harness never evaluates on such a cluster)
the maximum over the machines is the larger number -/
theorem serialBoundD_nodelay_needs_pos :
    ∃ s0 : Sys, Sys.serialBound s0 < Sys.serialBoundD {} s0 :=
  ⟨{ machines := [⟨0, 0, 1⟩, ⟨1, 1, 1⟩], totalArrays := 1, maxIngest := 1, alg := .queue,
     cl := Cluster.init [0, 1], buf := Buffer.init 100 10 100 10,
     obs := [{ id := 0, est := 0, duration := 1, demand := 1, rate := 1, ingestDemand := 1,
               wf := ⟨[(0, 5, 0)], [], [0]⟩ }] }, by decide⟩

/-- **The new theorem generalises `C05_bound_queue_simpy`**: the un-delayed bound, derived from the
delayed one. -/
theorem C05_bound_queue_simpy_from_delay (env : SimEnv) (s0 : Sys) (hw : Sys.WFConfig s0)
    (hfe : Sys.Feasible s0)
    (hb0 : s0.buf.hot.stored = [] ∧ s0.buf.hot.scheduled = [] ∧ s0.buf.hot.finished = [] ∧
      s0.buf.cold.stored = [])
    (hfull : s0.buf.size = [] ∧ s0.buf.hot.cur = s0.buf.hot.total ∧ s0.buf.cold.cur = s0.buf.cold.total)
    (hct : s0.buf.cold.transfer = none) (hh0 : s0.halted = false)
    (hH1 : Sys.NoTierCfg s0) (halg : s0.alg = .queue)
    (hstat : s0.staticPlan = false) (htopo : ∀ o ∈ s0.obs, IsTopo o.wf)
    (hd1 : env.delayTable = []) (hd2 : env.delayScript = []) :
    ∃ n, (ilSimSteps env n (SimState.start s0)).st.isFinished = true ∧
      (ilSimSteps env n (SimState.start s0)).st.crashed = none ∧
      SimRun env s0 (ilSimSteps env n (SimState.start s0)) ∧
      C05_clock env s0 n ≤ ((Sys.serialBound s0 : Nat) : Time) := by
  obtain ⟨n, h1, h2, h3, h4⟩ :=
    C05_bound_queue_delay_simpy env s0 hw hfe hb0 hfull hct hh0 hH1 halg hstat htopo
  refine ⟨n, h1, h2, h3, Rat.le_trans h4 ?_⟩
  exact_mod_cast serialBoundD_nodelay_feasible env s0 hfe hd1 hd2

/-! ### the sharper number -/

/-- latest planned start + per observation (duration + 3) + per workflow node (largest delayed
occupancy on any machine + largest transfer wait rounded up + 1) -/
def C05_sharpBoundD (env : SimEnv) (s0 : Sys) : Nat := boundLatest s0 + boundDVTotal env s0

theorem C05_sharpBoundD_le_serialBoundD (env : SimEnv) (s0 : Sys) (htopo : ∀ o ∈ s0.obs, IsTopo o.wf) :
    C05_sharpBoundD env s0 ≤ Sys.serialBoundD env s0 :=
  boundD_total_le_serial env s0 htopo

/-- **The delayed bound with the smaller constants**: no tier-transfer terms, latency 1 per task, 3 per
observation. -/
theorem C05_bound_queue_delay_sharp_simpy (env : SimEnv) (s0 : Sys) (hw : Sys.WFConfig s0)
    (hfe : Sys.Feasible s0)
    (hb0 : s0.buf.hot.stored = [] ∧ s0.buf.hot.scheduled = [] ∧ s0.buf.hot.finished = [] ∧
      s0.buf.cold.stored = [])
    (hfull : s0.buf.size = [] ∧ s0.buf.hot.cur = s0.buf.hot.total ∧ s0.buf.cold.cur = s0.buf.cold.total)
    (hct : s0.buf.cold.transfer = none) (hh0 : s0.halted = false)
    (hH1 : Sys.NoTierCfg s0) (halg : s0.alg = .queue)
    (hstat : s0.staticPlan = false) (htopo : ∀ o ∈ s0.obs, IsTopo o.wf) :
    ∃ n, (ilSimSteps env n (SimState.start s0)).st.isFinished = true ∧
      (ilSimSteps env n (SimState.start s0)).st.crashed = none ∧
      SimRun env s0 (ilSimSteps env n (SimState.start s0)) ∧
      C05_clock env s0 n ≤ ((C05_sharpBoundD env s0 : Nat) : Time) := by
  obtain ⟨n, h1, h2, h3, h4⟩ :=
    boundD_queue_clock_sharp (env := env) ⟨hw, hfe, hb0, hfull, hct, hH1, halg, hstat, htopo, hh0⟩
  rw [simAt_eq_ilSimSteps] at h1 h2 h3
  exact ⟨n, h1, h2, h3, h4⟩

/-! ### the timed stage lemmas with delayed durations -/

/-- **What the environment can hand a body**: whatever the number `k` of workflow bodies started
before, the total handed to the body of a workflow task of nominal duration `dur` is at most
`boundDTot env dur` (the table's image of `dur` if there is one, else `dur` + the largest script
entry) -/
theorem C05_delay_total_le (env : SimEnv) {t : Tid} (hti : t.isIngest = false) (k dur : Nat) :
    env.bodyTotal t k dur ≤ env.boundDTot dur :=
  boundD_tot_le env hti k dur

section
variable {env : SimEnv} {s0 : Sys}

/-- **The occupancy of a delayed body**: in every state of the run, a body of a workflow task that
starts on machine `m` (nominal duration `dur` there) occupies it for at most `boundDRt` of its node —
the charge of the bound — whatever number `k` of bodies started before. -/
theorem C05_delayed_occupancy_simpy (C : LiveCfg env s0) (hh0 : s0.halted = false) (n : Nat)
    {t : Tid} {m : Mid} {r : TaskRec} {mm : Machine} {dur : Nat}
    (hr : (simAt env s0 n).st.task? t = some r) (hmm : (simAt env s0 n).st.machine? m = some mm)
    (hti : t.isIngest = false)
    (hd : nominalDuration r.flops r.data mm.cpu mm.bw r.duration = .ok dur) (k : Nat) :
    bodyWait (env.bodyTotal t k dur) + 1 ≤ boundD_tw_R env s0 t :=
  boundD_tw_occ_le (bound_tw_ctx C (liveKernel C hh0) n) hr hmm hti hd k

/-- **The accounting invariant, delayed.**  At every index up to which the run is not at
`is_finished()` the time of the next event is within `latest + V_delayed`, `V_delayed` the weight of
the stages that have happened (`boundDV`: admission `duration + 1`, hand-over 1, removal 1, task start
`boundDWAT`). -/
theorem C05_bound_invariant_delay_simpy (C : LiveCfg env s0) (hh0 : s0.halted = false) (n : Nat)
    (hnf : ∀ j, j ≤ n → (simAt env s0 j).st.isFinished = false) :
    boundTau env s0 n ≤ ((boundLatest s0 + boundDV env s0 (simAt env s0 n).st : Nat) : Time) :=
  (boundD_inv_all C (liveKernel C hh0) (boundDParts C (liveKernel C hh0)) n hnf).le

/-- **Timed liveness of the workers, delayed.**  Before `is_finished()`, every live worker process —
ingest supervisor, provisioning, ingest stream, allocation process, task body — is due, and so ends,
by `latest + V_delayed - 1`: a task start pre-pays the largest total the environment can hand its body
on any machine + its largest transfer wait + 1. -/
theorem C05_worker_deadline_delay_simpy (C : LiveCfg env s0) (hh0 : s0.halted = false) (n : Nat)
    (hnf : ∀ j, j < n → (simAt env s0 j).st.isFinished = false)
    {q : Proc} (hq : q ∈ (simAt env s0 n).st.procs) (ha : q.alive = true) (hw : q.BoundWorker) :
    q.wake + 1 ≤ ((boundLatest s0 + boundDV env s0 (simAt env s0 n).st : Nat) : Time) :=
  (boundDParts C (liveKernel C hh0)).tl n
    (fun j hj => (boundD_inv_all C (liveKernel C hh0) (boundDParts C (liveKernel C hh0)) j
      (fun i hi => hnf i (by omega))).le) q hq ha hw

end

/-! ### a concrete delayed run: hypotheses satisfiable with a NON-EMPTY delay environment, and the
un-delayed serial bound is exceeded -/

/-- the delay environment of the witness: the table sends the nominal duration 2 (node 0 of `c04W1`
on its machine) to 20; the script adds 3 to every other task -/
def c05DelayEnv : SimEnv := { delayTable := [(2, 20)], delayScript := [3] }

/-- the hypotheses of `C05_bound_queue_delay_simpy` hold of configuration `c04W1` (one machine, one
observation with the chain workflow `0 → 1`); the environment — any — is here `c05DelayEnv`, with a
non-empty table and a non-empty script -/
example : Sys.WFConfig c04W1 ∧ Sys.Feasible c04W1 ∧
    (c04W1.buf.hot.stored = [] ∧ c04W1.buf.hot.scheduled = [] ∧ c04W1.buf.hot.finished = [] ∧
      c04W1.buf.cold.stored = []) ∧
    (c04W1.buf.size = [] ∧ c04W1.buf.hot.cur = c04W1.buf.hot.total ∧
      c04W1.buf.cold.cur = c04W1.buf.cold.total) ∧
    c04W1.buf.cold.transfer = none ∧ c04W1.halted = false ∧
    Sys.NoTierCfg c04W1 ∧ c04W1.alg = .queue ∧ c04W1.staticPlan = false ∧
    (∀ o ∈ c04W1.obs, IsTopo o.wf) ∧
    c05DelayEnv.delayTable ≠ [] ∧ c05DelayEnv.delayScript ≠ [] := by
  refine ⟨c04W1_wf, by simp [Sys.Feasible, c04W1, c04Obs1, Buffer.init], ⟨rfl, rfl, rfl, rfl⟩,
    ⟨rfl, rfl, rfl⟩, rfl, rfl, by unfold Sys.NoTierCfg; decide, rfl, rfl, ?_, by decide, by decide⟩
  intro o ho
  simp only [c04W1, List.mem_cons, List.not_mem_nil, or_false] at ho
  subst ho
  exact ⟨by decide, by intro n; simp [c04Obs1], by decide⟩

/-- the numbers on that configuration: node 0 is charged `table[2] = 20`, node 1 `1 + 3` -/
example : Sys.serialBound c04W1 = 15 ∧ Sys.serialBoundD c05DelayEnv c04W1 = 36 ∧
    C05_sharpBoundD c05DelayEnv c04W1 = 30 ∧ Sys.serialBoundD {} c04W1 = 15 := by decide

/-- **The run of the witness**: after 185 kernel steps the delayed run is at `is_finished()`, nothing
has raised, and the clock is 28 — beyond `Sys.serialBound c04W1 = 15`, within `C05_sharpBoundD = 30`
and `Sys.serialBoundD = 36`. -/
theorem C05_delay_witness_run :
    (ilSimSteps c05DelayEnv 185 (SimState.start c04W1)).st.isFinished = true ∧
    (ilSimSteps c05DelayEnv 185 (SimState.start c04W1)).st.crashed = none ∧
    C05_clock c05DelayEnv c04W1 185 = 28 := by
  decide +kernel

/-- **The un-delayed serial bound is exceeded under a delay model**: every index at which the run of
`c04W1` under `c05DelayEnv` is at `is_finished()` has its clock beyond `Sys.serialBound c04W1` (none of
the first 121 states is finished, and the event popped by the 121st step is at t = 18 > 15). -/
theorem C05_serialBound_exceeded_under_delay :
    ∀ n, (ilSimSteps c05DelayEnv n (SimState.start c04W1)).st.isFinished = true →
      ((Sys.serialBound c04W1 : Nat) : Time) < C05_clock c05DelayEnv c04W1 n := by
  intro n hfin
  have hscan : boundDScan c05DelayEnv 120 (SimState.start c04W1) = true := by decide +kernel
  have hno := boundD_scan_spec _ 120 _ hscan
  have hn : 121 ≤ n := by
    apply Classical.byContradiction
    intro hlt
    have := hno n (by omega)
    rw [this] at hfin
    cases hfin
  have N := boundD_witness_cfg c05DelayEnv
  have C : LiveCfg c05DelayEnv c04W1 := N.toLive (live_noRaise N)
  have K := liveKernel C N.hh0
  have h18 : boundTau c05DelayEnv c04W1 120 = 18 := by decide +kernel
  obtain ⟨m, rfl⟩ : ∃ m, n = m + 1 := ⟨n - 1, by omega⟩
  show _ < boundTau c05DelayEnv c04W1 m
  have hm := boundD_tau_mono C K (show 120 ≤ m by omega)
  rw [h18] at hm
  have hs : Sys.serialBound c04W1 = 15 := by decide
  rw [hs]
  have h15 : ((15 : Nat) : Time) < 18 := by decide
  grind

/-- the clause of `C05_bound_queue_simpy` WITHOUT its no-delay hypotheses (`Sys.serialBound` for an
arbitrary environment) -/
def C05_bound_queue_anyenv_statement : Prop :=
  ∀ (env : SimEnv) (s0 : Sys), Sys.WFConfig s0 → Sys.Feasible s0 →
    (s0.buf.hot.stored = [] ∧ s0.buf.hot.scheduled = [] ∧ s0.buf.hot.finished = [] ∧
      s0.buf.cold.stored = []) →
    (s0.buf.size = [] ∧ s0.buf.hot.cur = s0.buf.hot.total ∧ s0.buf.cold.cur = s0.buf.cold.total) →
    s0.buf.cold.transfer = none → s0.halted = false → Sys.NoTierCfg s0 → s0.alg = .queue →
    s0.staticPlan = false → (∀ o ∈ s0.obs, IsTopo o.wf) →
    ∃ n, (ilSimSteps env n (SimState.start s0)).st.isFinished = true ∧
      (ilSimSteps env n (SimState.start s0)).st.crashed = none ∧
      C05_clock env s0 n ≤ ((Sys.serialBound s0 : Nat) : Time)

/-- … is false: with a delay model the task terms of the bound have to be the delayed runtimes
(witness: `c04W1` under `c05DelayEnv`) -/
theorem C05_bound_queue_anyenv_statement_false : ¬ C05_bound_queue_anyenv_statement := by
  intro h
  have N := boundD_witness_cfg c05DelayEnv
  obtain ⟨n, hfin, _, hle⟩ := h c05DelayEnv c04W1 N.hw N.feas N.hb0 N.hfull N.hct N.hh0 N.h1 N.alg N.stat N.topo
  exact absurd (C05_serialBound_exceeded_under_delay n hfin) (Rat.not_lt.mpr hle)

end Topsim
