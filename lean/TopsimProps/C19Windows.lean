/-
  C19, the TIMED reading of the idleness queries — "the cluster reports idle only when no task is
  running …, the telescope only when every observation has finished and no arrays are in use":

    (M1) when `Cluster.is_idle()` holds at time `now`, no task is inside the interval it records
         (no task record with `ast ≤ now < aft`);
    (M2) when `Telescope.is_idle()` holds at time `now`, no observation is inside the window it
         occupies on the telescope (`ast ≤ now < ast + duration`);
    (M3) at `Simulation.is_finished()` every window and every recorded interval lies in the past.

  Vocabulary.
  * `s.task? t` is the record of task `t` (the one every block reads); `r.ast` / `r.aft` the recorded
    start / finish (`none`: Python's `-1`).  `s.cl.isIdle` is the model's `Cluster.is_idle()`,
    `s.telIsIdle` the model's `Telescope.is_idle()`, `s.isFinished` the model's
    `Simulation.is_finished()` (`C19_cluster`, `C19_telescope`, `C19_simulation`: each is exactly its
    state predicate).
  * THE CLOCK.  On the block system (L2, `Reach` / `ReachOk`: any live process of minimal wake time may
    run next) the time of whatever block runs next is the wake time of an *enabled* process
    (`s.enabled pid`); the statements bound the recorded times by the wake time of EVERY live process,
    hence by that.  The `…_after_block_…` forms speak about the state right after a block: there the
    clock is the wake time `p.wake` of the process that has just run (SimPy's `env.now` until the next
    event is popped).  On the simulator (L3) the clock of a block start is the time `e.time` of the
    heap entry about to be popped (`k.peek = some e`, its process alive), and after a kernel step the
    time of the entry that step popped.

  What is proved.
  * Cluster (any block order, any `ReachOk` oracle, crashed or not, ingest tasks included; `WFConfig`
    only): idle ⇒ every record with a recorded start has a recorded finish `f`, `ast + 1 ≤ f`, and
    `f ≤` the clock — before the next block and after the block that has just run.  Conversely a record
    with a start and no finish, or with a finish ahead of the clock, is of a task in the cluster's
    running list, and `is_idle()` answers False.
  * Telescope (any block order, ANY oracle — plain `Reach`): a FINISHED observation has a recorded
    start `a` and `a + duration ≤` the clock (both forms); so when `Telescope.is_idle()` holds every
    observation's window lies in the past.  No order side-condition is needed for this clause: the
    telescope's block marks an observation FINISHED only at a time `≥ ast + duration`, a recorded start
    is never changed, the clock does not go back.  (That the transition happens at EXACTLY
    `ast + duration` is `C08_status_transitions_simpy` / `C13_finished_transition`.)
  * Simulator: the same along every run (`SimReach`: pauses and states after an exception included),
    and `C19_finished_outside_all_windows_simpy` for `is_finished()`.
  * Statements about `r ∈ s.tasks` (a monitor walks the table) need NO hypothesis on the ids: every
    record of the table carries the stamps of the first record with its id
    (`C19_table_stamps_first_record_traj` / `…_simpy`, helpers `Idle4`, `Idle5`), also when the table
    has repeated ids (`C19_table_with_repeated_ids_witness`).
  * The side condition `ReachOk` of the cluster's clause (a user algorithm's own cluster calls stay
    within the reservation API) cannot be dropped: `C19_cluster_idle_any_oracle_statement_false`
    (machine-checked L2 run in which a user algorithm ends a polling entry itself).  The telescope's
    clause needs no such condition.
  * Non-vacuity: `c04W1` evaluated — at t = 5 the cluster is idle between the two tasks of the chain
    `0 → 1` (intervals `[0,1)`, `[2,4)` in the past, task 1 not started), at t = 6 task 1 runs (start 5)
    and the cluster is not idle, at t = 8 the run is at `is_finished()`.
-/
import TopsimProofs.Idle5
import TopsimProps.C04Table
import TopsimProps.C04Witness
import TopsimProps.C19

namespace Topsim

open KState Sys

/-! ## (1) the cluster is never idle inside a recorded interval -/

/-- **`Cluster.is_idle()` ⇒ every recorded interval lies in the past.**  Every `ReachOk` state of the
block system (any block order, any oracle whose own reservations stay within the public API, crashed or
not; ingest tasks included): if the cluster reports idle, every task record with a recorded start `a`
has a recorded finish `f` (there is no record with a start and no finish), the interval is not empty,
and `f ≤` the wake time of every live process — in particular of every enabled process, i.e. the time of
whatever block runs next. -/
theorem C19_cluster_idle_outside_recorded_intervals_traj (s0 s : Sys) (hw : WFConfig s0)
    (h : ReachOk s0 s) (hidle : s.cl.isIdle = true) :
    ∀ t r a, s.task? t = some r → r.ast = some a →
      ∃ f, r.aft = some f ∧ a + 1 ≤ f ∧
        (∀ q ∈ s.procs, q.alive = true → f ≤ q.wake) ∧
        (∀ pid p, s.enabled pid → s.proc? pid = some p → f ≤ p.wake) := by
  intro t r a hr hast
  obtain ⟨f, hf, hlt, hnow⟩ := idle_cluster_pre (reach_inv s0 s hw h) (reachD_spanInv s0 s hw h.toD)
    (reachOk_ivInv s0 s hw h) hidle t r a hr hast
  refine ⟨f, hf, hlt, hnow, ?_⟩
  intro pid p ⟨p', hp', ha', _⟩ hp
  rw [hp] at hp'; cases hp'
  exact hnow p (proc?_some hp).1 ha'

/-- … there is no record with a recorded start and no recorded finish while the cluster is idle. -/
theorem C19_cluster_idle_no_open_interval_traj (s0 s : Sys) (hw : WFConfig s0) (h : ReachOk s0 s)
    (hidle : s.cl.isIdle = true) :
    ¬ ∃ t r a, s.task? t = some r ∧ r.ast = some a ∧ r.aft = none := by
  rintro ⟨t, r, a, hr, hast, hnone⟩
  obtain ⟨f, hf, _⟩ := C19_cluster_idle_outside_recorded_intervals_traj s0 s hw h hidle t r a hr hast
  rw [hnone] at hf; cases hf

/-- **Inside a recorded interval the cluster is not idle** (the same, read the other way; no
hypothesis on the query).  A task whose record has a start and no finish (its body is between its two
stamps), or a finish `f` ahead of some live process (`q.wake < f`: the clock has not reached `f`), is in
the cluster's running list, its body's machine is held by a polling allocation process, and
`Cluster.is_idle()` answers False. -/
theorem C19_inside_recorded_interval_not_idle_traj (s0 s : Sys) (hw : WFConfig s0) (h : ReachOk s0 s) :
    ∀ t r a, s.task? t = some r → r.ast = some a →
      (r.aft = none ∨ ∃ f, r.aft = some f ∧ ∃ q ∈ s.procs, q.alive = true ∧ q.wake < f) →
      t ∈ s.cl.running ∧ s.cl.isIdle = false := by
  intro t r a hr hast hin
  have hs := reach_inv s0 s hw h
  have hiv := reachOk_ivInv s0 s hw h
  have hrun : t ∈ s.cl.running := by
    rcases hin with hnone | ⟨f, hf, q, hq, hqa, hlt⟩
    · rcases hiv.stamp t r a hr hast with ⟨d, hd, hda, m, c, tot, hdk⟩ | h2
      · exact (live_body_entry hs hd hda hdk).1
      · rw [hnone] at h2; cases h2
    · apply Classical.byContradiction
      intro hnr
      exact absurd hlt (Rat.not_lt.mpr (hiv.rel t r f hr hf hnr q hq hqa))
  refine ⟨hrun, ?_⟩
  cases hi : s.cl.isIdle with
  | false => rfl
  | true =>
    have := idle_running_nil hi
    rw [this] at hrun; cases hrun

/-- **The table and the records every block reads agree on the stamps.**  A monitor walks the LIST
`s.tasks`; every block reads `s.task? t`, the first record with id `t`.  In every `ReachOk` state, for
every record `r` of the list the first record with its id carries the same recorded start and finish —
whether or not the ids of the table are distinct (a topological list that names a node twice, a static
plan with two rows for one node produce tables with repeated ids, `C04_record_ids_unique_statement_false`):
every update is applied to all records with the id, and a new record never meets an older record with
its id that carries a stamp. -/
theorem C19_table_stamps_first_record_traj (s0 s : Sys) (hw : WFConfig s0) (h : ReachOk s0 s) :
    ∀ r ∈ s.tasks, ∃ r0, s.task? r.id = some r0 ∧ r0.ast = r.ast ∧ r0.aft = r.aft :=
  fun _ hr => (idle_reach_tbl s0 s hw h).2.first hr

/-- … hence the cluster's clause for every record of the table, no hypothesis on the ids. -/
theorem C19_cluster_idle_outside_recorded_intervals_mem_traj (s0 s : Sys) (hw : WFConfig s0)
    (h : ReachOk s0 s) (hidle : s.cl.isIdle = true) :
    ∀ r ∈ s.tasks, ∀ a, r.ast = some a →
      ∃ f, r.aft = some f ∧ a + 1 ≤ f ∧
        (∀ q ∈ s.procs, q.alive = true → f ≤ q.wake) ∧
        (∀ pid p, s.enabled pid → s.proc? pid = some p → f ≤ p.wake) := by
  intro r hr a hast
  obtain ⟨r0, hr0, e1, e2⟩ := C19_table_stamps_first_record_traj s0 s hw h r hr
  obtain ⟨f, g1, g2⟩ := C19_cluster_idle_outside_recorded_intervals_traj s0 s hw h hidle r.id r0 a hr0
    (by rw [e1]; exact hast)
  exact ⟨f, by rw [← e2]; exact g1, g2⟩

/-- … with one of the four shipped algorithms the side condition on the oracle is vacuous. -/
theorem C19_cluster_idle_outside_recorded_intervals_shipped (s0 s : Sys) (hw : WFConfig s0)
    (hno : s0.alg ≠ .oracle) (h : Reach s0 s) (hidle : s.cl.isIdle = true) :
    ∀ t r a, s.task? t = some r → r.ast = some a →
      ∃ f, r.aft = some f ∧ a + 1 ≤ f ∧
        (∀ q ∈ s.procs, q.alive = true → f ≤ q.wake) ∧
        (∀ pid p, s.enabled pid → s.proc? pid = some p → f ≤ p.wake) :=
  C19_cluster_idle_outside_recorded_intervals_traj s0 s hw (h.toOk hno) hidle

/-- **Right after a block** (the clock is the wake time `p.wake` of the process that has just run): if
the cluster reports idle in the state the block leaves, every record with a recorded start has a
recorded finish `f`, `a + 1 ≤ f ≤ p.wake`.  (A task leaves the running list only in the block of its
allocation process that found `now ≥ aft` — F13.) -/
theorem C19_cluster_idle_after_block_traj (s0 s : Sys) (hw : WFConfig s0) (h : ReachOk s0 s)
    (pid : Nat) (p : Proc) (orc : Oracle) (hen : s.enabled pid) (hp : s.proc? pid = some p)
    (hpre : s.alg = .oracle → orc.preOk) (hidle : (s.resume pid orc).1.cl.isIdle = true) :
    ∀ t r a, (s.resume pid orc).1.task? t = some r → r.ast = some a →
      ∃ f, r.aft = some f ∧ a + 1 ≤ f ∧ f ≤ p.wake := by
  have h1 : ReachOk s0 (s.resume pid orc).1 := ReachOk.step s pid orc h hen hpre
  obtain ⟨p', hp', ha, hmin⟩ := hen
  rw [hp] at hp'; cases hp'
  intro t r a hr hast
  obtain ⟨f, hf, hlt, _⟩ := C19_cluster_idle_outside_recorded_intervals_traj s0 _ hw h1 hidle t r a hr hast
  refine ⟨f, hf, hlt, ?_⟩
  exact idle_rel_post (reach_inv s0 s hw h) (reachOk_ivInv s0 s hw h) hp ha hmin orc hpre
    (reach_inv s0 _ hw h1) t r f hr hf (by rw [idle_running_nil hidle]; simp)

/-- … for every record of the table. -/
theorem C19_cluster_idle_after_block_mem_traj (s0 s : Sys) (hw : WFConfig s0) (h : ReachOk s0 s)
    (pid : Nat) (p : Proc) (orc : Oracle) (hen : s.enabled pid) (hp : s.proc? pid = some p)
    (hpre : s.alg = .oracle → orc.preOk) (hidle : (s.resume pid orc).1.cl.isIdle = true) :
    ∀ r ∈ (s.resume pid orc).1.tasks, ∀ a, r.ast = some a → ∃ f, r.aft = some f ∧ a + 1 ≤ f ∧ f ≤ p.wake := by
  intro r hr a hast
  obtain ⟨r0, hr0, e1, e2⟩ :=
    C19_table_stamps_first_record_traj s0 _ hw (ReachOk.step s pid orc h hen hpre) r hr
  obtain ⟨f, g1, g2⟩ := C19_cluster_idle_after_block_traj s0 s hw h pid p orc hen hp hpre hidle r.id r0 a hr0
    (by rw [e1]; exact hast)
  exact ⟨f, by rw [← e2]; exact g1, g2⟩

/-- **Along the simulator's runs**, at every block start (time `e.time`) of every run — pauses and
states after an exception included. -/
theorem C19_cluster_idle_outside_recorded_intervals_simpy (env : SimEnv) (s0 : Sys) (hw : WFConfig s0)
    (k : SimState) (h : SimReach env s0 k) {e : HEntry} {p : Proc} (hpk : k.peek = some e)
    (hpp : k.st.proc? e.pid = some p) (ha : p.alive = true) (hidle : k.st.cl.isIdle = true) :
    ∀ t r a, k.st.task? t = some r → r.ast = some a → ∃ f, r.aft = some f ∧ a + 1 ≤ f ∧ f ≤ e.time :=
  idle_sim_cluster_pre env s0 hw k h hpk hpp ha hidle

/-- … and right after the kernel step that ran the block of time `e.time`. -/
theorem C19_cluster_idle_after_block_simpy (env : SimEnv) (s0 : Sys) (hw : WFConfig s0) {k k1 : SimState}
    (h : SimReach env s0 k) (hs : k.step (simHandler env) = some k1) {e : HEntry} {p : Proc}
    (hpk : k.peek = some e) (hpp : k.st.proc? e.pid = some p) (ha : p.alive = true)
    (hidle : k1.st.cl.isIdle = true) :
    ∀ t r a, k1.st.task? t = some r → r.ast = some a → ∃ f, r.aft = some f ∧ a + 1 ≤ f ∧ f ≤ e.time :=
  idle_sim_cluster_post env s0 hw h hs hpk hpp ha hidle

/-- the table and the records every block reads agree on the stamps, every state of every run -/
theorem C19_table_stamps_first_record_simpy (env : SimEnv) (s0 : Sys) (hw : WFConfig s0) (k : SimState)
    (h : SimReach env s0 k) :
    ∀ r ∈ k.st.tasks, ∃ r0, k.st.task? r.id = some r0 ∧ r0.ast = r.ast ∧ r0.aft = r.aft :=
  fun _ hr => (idle_sim_tbl env s0 hw k h).first hr

/-- … for every record of the task table, at every block start of every run. -/
theorem C19_cluster_idle_outside_recorded_intervals_mem_simpy (env : SimEnv) (s0 : Sys) (hw : WFConfig s0)
    (k : SimState) (h : SimReach env s0 k) {e : HEntry} {p : Proc} (hpk : k.peek = some e)
    (hpp : k.st.proc? e.pid = some p) (ha : p.alive = true) (hidle : k.st.cl.isIdle = true) :
    ∀ r ∈ k.st.tasks, ∀ a, r.ast = some a → ∃ f, r.aft = some f ∧ a + 1 ≤ f ∧ f ≤ e.time := by
  intro r hr a hast
  obtain ⟨r0, hr0, e1, e2⟩ := C19_table_stamps_first_record_simpy env s0 hw k h r hr
  obtain ⟨f, g1, g2⟩ := idle_sim_cluster_pre env s0 hw k h hpk hpp ha hidle r.id r0 a hr0 (by rw [e1]; exact hast)
  exact ⟨f, by rw [← e2]; exact g1, g2⟩

/-- … and right after the kernel step that ran the block of time `e.time`. -/
theorem C19_cluster_idle_after_block_mem_simpy (env : SimEnv) (s0 : Sys) (hw : WFConfig s0)
    {k k1 : SimState} (h : SimReach env s0 k) (hs : k.step (simHandler env) = some k1) {e : HEntry}
    {p : Proc} (hpk : k.peek = some e) (hpp : k.st.proc? e.pid = some p) (ha : p.alive = true)
    (hidle : k1.st.cl.isIdle = true) :
    ∀ r ∈ k1.st.tasks, ∀ a, r.ast = some a → ∃ f, r.aft = some f ∧ a + 1 ≤ f ∧ f ≤ e.time := by
  intro r hr a hast
  obtain ⟨r0, hr0, e1, e2⟩ :=
    C19_table_stamps_first_record_simpy env s0 hw k1 (SimReach.step k k1 h hs) r hr
  obtain ⟨f, g1, g2⟩ := idle_sim_cluster_post env s0 hw h hs hpk hpp ha hidle r.id r0 a hr0 (by rw [e1]; exact hast)
  exact ⟨f, by rw [← e2]; exact g1, g2⟩

/-! ## (2) the telescope is never idle inside an observation's window -/

/-- **A FINISHED observation's window lies in the past.**  Every `Reach` state of the block system —
any block order, ANY oracle, crashed or not: a FINISHED observation has a recorded start `a`, and
`a + duration ≤` the wake time of every live process. -/
theorem C19_finished_observation_window_past_traj (s0 s : Sys) (hw : WFConfig s0) (h : Reach s0 s) :
    ∀ ob ∈ s.obs, ob.status = .finished →
      ∃ a, ob.ast = some a ∧
        (∀ q ∈ s.procs, q.alive = true → (((a + ob.duration : Nat) : Nat) : Time) ≤ q.wake) := by
  intro ob hob hfin
  have hI := idle_reach_tel s0 s hw h
  have hob' : s.obs? ob.id = some ob := obs?_of_mem (reach_einv s0 s hw h).eg.obsNodup hob
  cases hast : ob.ast with
  | none => exact absurd hast (hI.finAst ob.id ob hob' hfin)
  | some a => exact ⟨a, rfl, hI.fin ob.id ob a hob' hfin hast⟩

/-- **`Telescope.is_idle()` ⇒ every observation's window lies in the past** (any block order, any
oracle): every observation has a recorded start `a` and `a + duration ≤` the wake time of every live
process — in particular of every enabled process, the time of whatever block runs next. -/
theorem C19_telescope_idle_outside_windows_traj (s0 s : Sys) (hw : WFConfig s0) (h : Reach s0 s)
    (hidle : s.telIsIdle = true) :
    ∀ ob ∈ s.obs, ∃ a, ob.ast = some a ∧
      (∀ q ∈ s.procs, q.alive = true → (((a + ob.duration : Nat) : Nat) : Time) ≤ q.wake) ∧
      (∀ pid p, s.enabled pid → s.proc? pid = some p → (((a + ob.duration : Nat) : Nat) : Time) ≤ p.wake) := by
  intro ob hob
  have hfin := ((C19_telescope s).mp hidle).1 ob hob
  obtain ⟨a, hast, hnow⟩ := C19_finished_observation_window_past_traj s0 s hw h ob hob hfin
  refine ⟨a, hast, hnow, ?_⟩
  intro pid p ⟨p', hp', ha', _⟩ hp
  rw [hp] at hp'; cases hp'
  exact hnow p (proc?_some hp).1 ha'

/-- **Right after a block** (clock `p.wake`): every FINISHED observation of the state the block leaves
has a recorded start `a` with `a + duration ≤ p.wake`; so if `Telescope.is_idle()` holds there, every
window lies in the past. -/
theorem C19_telescope_idle_after_block_traj (s0 s : Sys) (hw : WFConfig s0) (h : Reach s0 s)
    (pid : Nat) (p : Proc) (orc : Oracle) (hen : s.enabled pid) (hp : s.proc? pid = some p) :
    (∀ ob ∈ (s.resume pid orc).1.obs, ob.status = .finished →
      ∃ a, ob.ast = some a ∧ (((a + ob.duration : Nat) : Nat) : Time) ≤ p.wake) ∧
    ((s.resume pid orc).1.telIsIdle = true →
      ∀ ob ∈ (s.resume pid orc).1.obs, ∃ a, ob.ast = some a ∧ (((a + ob.duration : Nat) : Nat) : Time) ≤ p.wake) := by
  have h1 : Reach s0 (s.resume pid orc).1 := Reach.step s pid orc h hen
  obtain ⟨p', hp', ha, hmin⟩ := hen
  rw [hp] at hp'; cases hp'
  have hmain : ∀ ob ∈ (s.resume pid orc).1.obs, ob.status = .finished →
      ∃ a, ob.ast = some a ∧ (((a + ob.duration : Nat) : Nat) : Time) ≤ p.wake := by
    intro ob hob hfin
    have hI1 := idle_reach_tel s0 _ hw h1
    have hob' : (s.resume pid orc).1.obs? ob.id = some ob :=
      obs?_of_mem (reach_einv s0 _ hw h1).eg.obsNodup hob
    cases hast : ob.ast with
    | none => exact absurd hast (hI1.finAst ob.id ob hob' hfin)
    | some a =>
      exact ⟨a, rfl, idle_tel_post (reach_einv s0 s hw h) (IdleDisc.of_telDisc (reach_telDisc hw h))
        (idle_reach_tel s0 s hw h) hp ha hmin orc ob.id ob a hob' hfin hast⟩
  exact ⟨hmain, fun hidle ob hob => hmain ob hob (((C19_telescope _).mp hidle).1 ob hob)⟩

/-- **Along the simulator's runs**, at every block start (time `e.time`) of every run: when
`Telescope.is_idle()` holds every observation has a recorded start `a` and `a + duration ≤ e.time`. -/
theorem C19_telescope_idle_outside_windows_simpy (env : SimEnv) (s0 : Sys) (hw : WFConfig s0)
    (k : SimState) (h : SimReach env s0 k) {e : HEntry} {p : Proc} (hpk : k.peek = some e)
    (hpp : k.st.proc? e.pid = some p) (ha : p.alive = true) (hidle : k.st.telIsIdle = true) :
    ∀ ob ∈ k.st.obs, ∃ a, ob.ast = some a ∧ (((a + ob.duration : Nat) : Nat) : Time) ≤ e.time := by
  intro ob hob
  have hfin := ((C19_telescope k.st).mp hidle).1 ob hob
  exact idle_sim_tel_pre env s0 hw k h hpk hpp ha ob.id ob
    (obs?_of_mem (h.l3inv hw).sinv.eg.obsNodup hob) hfin

/-- … and right after the kernel step that ran the block of time `e.time`. -/
theorem C19_telescope_idle_after_block_simpy (env : SimEnv) (s0 : Sys) (hw : WFConfig s0)
    {k k1 : SimState} (h : SimReach env s0 k) (hs : k.step (simHandler env) = some k1) {e : HEntry}
    {p : Proc} (hpk : k.peek = some e) (hpp : k.st.proc? e.pid = some p) (ha : p.alive = true)
    (hidle : k1.st.telIsIdle = true) :
    ∀ ob ∈ k1.st.obs, ∃ a, ob.ast = some a ∧ (((a + ob.duration : Nat) : Nat) : Time) ≤ e.time := by
  intro ob hob
  have hfin := ((C19_telescope k1.st).mp hidle).1 ob hob
  have h1 : SimReach env s0 k1 := SimReach.step k k1 h hs
  exact idle_sim_tel_post env s0 hw h hs hpk hpp ha ob.id ob
    (obs?_of_mem (h1.l3inv hw).sinv.eg.obsNodup hob) hfin

/-! ## (3) at `is_finished()` everything lies in the past -/

/-- on the block system (any block order, any `ReachOk` oracle) -/
theorem C19_finished_outside_all_windows_traj (s0 s : Sys) (hw : WFConfig s0) (h : ReachOk s0 s)
    (hf : s.isFinished = true) :
    (∀ ob ∈ s.obs, ∃ a, ob.ast = some a ∧
      ∀ q ∈ s.procs, q.alive = true → (((a + ob.duration : Nat) : Nat) : Time) ≤ q.wake) ∧
    (∀ t r a, s.task? t = some r → r.ast = some a →
      ∃ f, r.aft = some f ∧ a + 1 ≤ f ∧ ∀ q ∈ s.procs, q.alive = true → f ≤ q.wake) := by
  obtain ⟨_, hcl, _, htel⟩ := (C19_simulation s).mp hf
  constructor
  · intro ob hob
    obtain ⟨a, g1, g2, _⟩ := C19_telescope_idle_outside_windows_traj s0 s hw h.toReach htel ob hob
    exact ⟨a, g1, g2⟩
  · intro t r a hr hast
    obtain ⟨f, g1, g2, g3, _⟩ := C19_cluster_idle_outside_recorded_intervals_traj s0 s hw h hcl t r a hr hast
    exact ⟨f, g1, g2, g3⟩

/-- **At `is_finished()` of a simulator run every observation's window and every task's recorded
interval lies in the past.**  Every state of every run (`SimReach`), at a block start of time `e.time`:
if `Simulation.is_finished()` holds, every observation has a recorded start `a` with
`a + duration ≤ e.time`, and every task record with a recorded start `a` has a recorded finish `f` with
`a + 1 ≤ f ≤ e.time`. -/
theorem C19_finished_outside_all_windows_simpy (env : SimEnv) (s0 : Sys) (hw : WFConfig s0)
    (k : SimState) (h : SimReach env s0 k) {e : HEntry} {p : Proc} (hpk : k.peek = some e)
    (hpp : k.st.proc? e.pid = some p) (ha : p.alive = true) (hf : k.st.isFinished = true) :
    (∀ ob ∈ k.st.obs, ∃ a, ob.ast = some a ∧ (((a + ob.duration : Nat) : Nat) : Time) ≤ e.time) ∧
    (∀ t r a, k.st.task? t = some r → r.ast = some a → ∃ f, r.aft = some f ∧ a + 1 ≤ f ∧ f ≤ e.time) := by
  obtain ⟨_, hcl, _, htel⟩ := (C19_simulation k.st).mp hf
  exact ⟨C19_telescope_idle_outside_windows_simpy env s0 hw k h hpk hpp ha htel,
    C19_cluster_idle_outside_recorded_intervals_simpy env s0 hw k h hpk hpp ha hcl⟩

/-- … the same right after the kernel step that ran the block of time `e.time` (the state in which
`while not is_finished()` reads the query). -/
theorem C19_finished_outside_all_windows_after_block_simpy (env : SimEnv) (s0 : Sys) (hw : WFConfig s0)
    {k k1 : SimState} (h : SimReach env s0 k) (hs : k.step (simHandler env) = some k1) {e : HEntry}
    {p : Proc} (hpk : k.peek = some e) (hpp : k.st.proc? e.pid = some p) (ha : p.alive = true)
    (hf : k1.st.isFinished = true) :
    (∀ ob ∈ k1.st.obs, ∃ a, ob.ast = some a ∧ (((a + ob.duration : Nat) : Nat) : Time) ≤ e.time) ∧
    (∀ t r a, k1.st.task? t = some r → r.ast = some a → ∃ f, r.aft = some f ∧ a + 1 ≤ f ∧ f ≤ e.time) := by
  obtain ⟨_, hcl, _, htel⟩ := (C19_simulation k1.st).mp hf
  exact ⟨C19_telescope_idle_after_block_simpy env s0 hw h hs hpk hpp ha htel,
    C19_cluster_idle_after_block_simpy env s0 hw h hs hpk hpp ha hcl⟩

/-- … for the records of the task table (the list), every state of every run. -/
theorem C19_finished_outside_all_windows_mem_simpy (env : SimEnv) (s0 : Sys) (hw : WFConfig s0)
    (k : SimState) (h : SimReach env s0 k) {e : HEntry} {p : Proc} (hpk : k.peek = some e)
    (hpp : k.st.proc? e.pid = some p) (ha : p.alive = true) (hf : k.st.isFinished = true) :
    (∀ ob ∈ k.st.obs, ∃ a, ob.ast = some a ∧ (((a + ob.duration : Nat) : Nat) : Time) ≤ e.time) ∧
    (∀ r ∈ k.st.tasks, ∀ a, r.ast = some a → ∃ f, r.aft = some f ∧ a + 1 ≤ f ∧ f ≤ e.time) := by
  obtain ⟨_, hcl, _, htel⟩ := (C19_simulation k.st).mp hf
  exact ⟨C19_telescope_idle_outside_windows_simpy env s0 hw k h hpk hpp ha htel,
    C19_cluster_idle_outside_recorded_intervals_mem_simpy env s0 hw k h hpk hpp ha hcl⟩

/-! ## non-vacuity: `c04W1`, evaluated -/

/-- the stamps of the task table -/
def idleStamps (s : Sys) : List (Tid × Option Time × Option Time) :=
  s.tasks.map (fun r => (r.id, r.ast, r.aft))

/-- the block the kernel is about to run: its time, and whether its process is alive -/
def idleBlockStart (k : SimState) : Option (Time × Bool) :=
  k.peek.bind (fun e => (k.st.proc? e.pid).map (fun p => (e.time, p.alive)))

theorem idleBlockStart_spec {k : SimState} {t : Time} (h : idleBlockStart k = some (t, true)) :
    ∃ e p, k.peek = some e ∧ k.st.proc? e.pid = some p ∧ p.alive = true ∧ e.time = t := by
  unfold idleBlockStart at h
  cases hpk : k.peek with
  | none => rw [hpk] at h; simp at h
  | some e =>
    rw [hpk] at h
    simp only [Option.bind_some] at h
    cases hpp : k.st.proc? e.pid with
    | none => rw [hpp] at h; simp at h
    | some p =>
      rw [hpp] at h
      simp only [Option.map_some, Option.some.injEq, Prod.mk.injEq] at h
      exact ⟨e, p, rfl, hpp, h.2, h.1⟩

/-- `c04W1` (one machine; one observation of duration 1 at 0, one ingest machine; workflow chain
`0 → 1`; queue algorithm) after every event before t = 5, t = 6 and t = 8 -/
def idleK5 : SimState := witRun c04W1 5 200
def idleK6 : SimState := witRun c04W1 6 200
def idleK8 : SimState := witRun c04W1 8 200

/-- t = 5: the next block is at time 5; the cluster and the telescope are idle, the run is not
finished; ingest task `[0, 1)`, workflow task 0 `[2, 4)`, workflow task 1 not started; the
observation is FINISHED, window `[0, 1)` -/
theorem idleK5_chk :
    (idleK5.st.cl.isIdle && idleK5.st.telIsIdle && !idleK5.st.isFinished && !idleK5.st.halted &&
      decide (idleBlockStart idleK5 = some (5, true)) &&
      decide (idleStamps idleK5.st =
        [(.ingest 0 0, some 0, some 1), (.wf 0 1 0, some 2, some 4), (.wf 0 1 1, none, none)]) &&
      decide (idleK5.st.obs.map (fun o => (o.status, o.ast, o.duration)) = [(.finished, some 0, 1)])) = true := by
  decide +kernel

/-- t = 6: workflow task 1 started at 5 (after the recorded finish 4 of task 0) and is in the running
list; the cluster is not idle -/
theorem idleK6_chk :
    (!idleK6.st.cl.isIdle && !idleK6.st.halted &&
      decide (idleBlockStart idleK6 = some (6, true)) &&
      decide (idleStamps idleK6.st =
        [(.ingest 0 0, some 0, some 1), (.wf 0 1 0, some 2, some 4), (.wf 0 1 1, some 5, some 6)]) &&
      decide (idleK6.st.cl.running = [.wf 0 1 1])) = true := by
  decide +kernel

/-- t = 8: `is_finished()`; the next block is at time 8; all three intervals recorded -/
theorem idleK8_chk :
    (idleK8.st.isFinished && !idleK8.st.halted &&
      decide (idleBlockStart idleK8 = some (8, true)) &&
      decide (idleStamps idleK8.st =
        [(.ingest 0 0, some 0, some 1), (.wf 0 1 0, some 2, some 4), (.wf 0 1 1, some 5, some 6)]) &&
      decide (idleK8.st.obs.map (fun o => (o.status, o.ast, o.duration)) = [(.finished, some 0, 1)])) = true := by
  decide +kernel

/-- **The cluster is idle between the two tasks of a chain, and all earlier intervals are in the
past.**  `c04W1` at the block start of time 5: an uninterrupted run of the simulator, a `ReachOk` state
of the block system; `Cluster.is_idle()` and `Telescope.is_idle()` hold, `is_finished()` does not (the
second workflow task has not started); the table holds the intervals `[0, 1)` (ingest) and `[2, 4)`
(task 0); the theorems apply and bound every recorded finish, and the end of the observation's window,
by the time 5 of the block about to run. -/
theorem C19_cluster_idle_between_chain_tasks_witness :
    ∃ (k : SimState) (e : HEntry) (p : Proc), SimRun {} c04W1 k ∧ ReachOk c04W1 k.st ∧
      k.peek = some e ∧ k.st.proc? e.pid = some p ∧ p.alive = true ∧ e.time = 5 ∧
      k.st.cl.isIdle = true ∧ k.st.telIsIdle = true ∧ k.st.isFinished = false ∧
      idleStamps k.st =
        [(.ingest 0 0, some 0, some 1), (.wf 0 1 0, some 2, some 4), (.wf 0 1 1, none, none)] ∧
      k.st.obs.map (fun o => (o.status, o.ast, o.duration)) = [(.finished, some 0, 1)] ∧
      (∀ t r a, k.st.task? t = some r → r.ast = some a → ∃ f, r.aft = some f ∧ a + 1 ≤ f ∧ f ≤ e.time) ∧
      (∀ t r a, k.st.task? t = some r → r.ast = some a →
        ∃ f, r.aft = some f ∧ a + 1 ≤ f ∧ ∀ q ∈ k.st.procs, q.alive = true → f ≤ q.wake) ∧
      (∀ ob ∈ k.st.obs, ∃ a, ob.ast = some a ∧ (((a + ob.duration : Nat) : Nat) : Time) ≤ e.time) := by
  have hc := idleK5_chk
  simp only [Bool.and_eq_true, Bool.not_eq_true', decide_eq_true_eq] at hc
  obtain ⟨⟨⟨⟨⟨⟨c1, c2⟩, c3⟩, c4⟩, c5⟩, c6⟩, c7⟩ := hc
  obtain ⟨e, p, hpk, hpp, ha, het⟩ := idleBlockStart_spec c5
  have hrun : SimRun {} c04W1 idleK5 := witRun_simRun c04W1 5 200
  have hok : ReachOk c04W1 idleK5.st := witRun_reachOk c04W1_wf 5 200 c4
  refine ⟨idleK5, e, p, hrun, hok, hpk, hpp, ha, het, c1, c2, c3, c6, c7,
    C19_cluster_idle_outside_recorded_intervals_simpy {} c04W1 c04W1_wf idleK5 hrun.toReach hpk hpp ha c1, ?_,
    C19_telescope_idle_outside_windows_simpy {} c04W1 c04W1_wf idleK5 hrun.toReach hpk hpp ha c2⟩
  intro t r a hr hast
  obtain ⟨f, g1, g2, g3, _⟩ :=
    C19_cluster_idle_outside_recorded_intervals_traj c04W1 idleK5.st c04W1_wf hok c1 t r a hr hast
  exact ⟨f, g1, g2, g3⟩

/-- … one instant later the second task of the chain has run (recorded start 5 ≥ the recorded finish 4
of the first, recorded finish 6); at the block start of time 6 it is still in the cluster's running
list — its allocation process has not polled yet — and `Cluster.is_idle()` answers False: the cluster
is busy up to the recorded finish, idle only after it. -/
theorem C19_cluster_busy_inside_interval_witness :
    ∃ (k : SimState) (e : HEntry) (p : Proc), SimRun {} c04W1 k ∧ ReachOk c04W1 k.st ∧
      k.peek = some e ∧ k.st.proc? e.pid = some p ∧ p.alive = true ∧ e.time = 6 ∧
      k.st.cl.isIdle = false ∧ k.st.cl.running = [.wf 0 1 1] ∧
      idleStamps k.st =
        [(.ingest 0 0, some 0, some 1), (.wf 0 1 0, some 2, some 4), (.wf 0 1 1, some 5, some 6)] := by
  have hc := idleK6_chk
  simp only [Bool.and_eq_true, Bool.not_eq_true', decide_eq_true_eq] at hc
  obtain ⟨⟨⟨⟨c1, c2⟩, c3⟩, c4⟩, c5⟩ := hc
  obtain ⟨e, p, hpk, hpp, ha, het⟩ := idleBlockStart_spec c3
  exact ⟨idleK6, e, p, witRun_simRun c04W1 6 200, witRun_reachOk c04W1_wf 6 200 c2, hpk, hpp, ha, het,
    c1, c5, c4⟩

/-- **At `is_finished()`**: `c04W1` at the block start of time 8 — the hypotheses of
`C19_finished_outside_all_windows_simpy` hold and its conclusion is about three recorded intervals
(`[0,1)`, `[2,4)`, `[5,6)`) and one window (`[0,1)`). -/
theorem C19_finished_outside_all_windows_witness :
    ∃ (k : SimState) (e : HEntry) (p : Proc), SimRun {} c04W1 k ∧
      k.peek = some e ∧ k.st.proc? e.pid = some p ∧ p.alive = true ∧ e.time = 8 ∧
      k.st.isFinished = true ∧
      idleStamps k.st =
        [(.ingest 0 0, some 0, some 1), (.wf 0 1 0, some 2, some 4), (.wf 0 1 1, some 5, some 6)] ∧
      k.st.obs.map (fun o => (o.status, o.ast, o.duration)) = [(.finished, some 0, 1)] ∧
      ((∀ ob ∈ k.st.obs, ∃ a, ob.ast = some a ∧ (((a + ob.duration : Nat) : Nat) : Time) ≤ e.time) ∧
       (∀ t r a, k.st.task? t = some r → r.ast = some a → ∃ f, r.aft = some f ∧ a + 1 ≤ f ∧ f ≤ e.time)) := by
  have hc := idleK8_chk
  simp only [Bool.and_eq_true, Bool.not_eq_true', decide_eq_true_eq] at hc
  obtain ⟨⟨⟨⟨c1, _⟩, c3⟩, c4⟩, c5⟩ := hc
  obtain ⟨e, p, hpk, hpp, ha, het⟩ := idleBlockStart_spec c3
  have hrun : SimRun {} c04W1 idleK8 := witRun_simRun c04W1 8 200
  exact ⟨idleK8, e, p, hrun, hpk, hpp, ha, het, c1, c4, c5,
    C19_finished_outside_all_windows_simpy {} c04W1 c04W1_wf idleK8 hrun.toReach hpk hpp ha c1⟩

/-- `c04Wdup` (`c04W1` with a workflow whose topological list names node 0 twice) after every event
before t = 8 -/
def idleKdup : SimState := witRun c04Wdup 8 400

theorem idleKdup_chk :
    (idleKdup.st.isFinished && !idleKdup.st.halted &&
      decide (idleBlockStart idleKdup = some (8, true)) &&
      decide (idleStamps idleKdup.st =
        [(.ingest 0 0, some 0, some 1), (.wf 0 1 0, some 2, some 4), (.wf 0 1 0, some 2, some 4)])) = true := by
  decide +kernel

/-- **A table with a repeated id**: `c04Wdup` at `is_finished()` — two records with id `0_1_0`, both
carrying the interval `[2, 4)`; the table form of the theorem applies to each of them. -/
theorem C19_table_with_repeated_ids_witness :
    ∃ (k : SimState) (e : HEntry) (p : Proc), SimRun {} c04Wdup k ∧
      k.peek = some e ∧ k.st.proc? e.pid = some p ∧ p.alive = true ∧ e.time = 8 ∧
      k.st.isFinished = true ∧ ¬ (k.st.tasks.map (·.id)).Nodup ∧
      idleStamps k.st =
        [(.ingest 0 0, some 0, some 1), (.wf 0 1 0, some 2, some 4), (.wf 0 1 0, some 2, some 4)] ∧
      (∀ r ∈ k.st.tasks, ∀ a, r.ast = some a → ∃ f, r.aft = some f ∧ a + 1 ≤ f ∧ f ≤ e.time) := by
  have hc := idleKdup_chk
  simp only [Bool.and_eq_true, Bool.not_eq_true', decide_eq_true_eq] at hc
  obtain ⟨⟨⟨c1, _⟩, c3⟩, c4⟩ := hc
  obtain ⟨e, p, hpk, hpp, ha, het⟩ := idleBlockStart_spec c3
  have hrun : SimRun {} c04Wdup idleKdup := witRun_simRun c04Wdup 8 400
  have hids : idleKdup.st.tasks.map (·.id) = [.ingest 0 0, .wf 0 1 0, .wf 0 1 0] := by
    have := congrArg (List.map (fun x : Tid × Option Time × Option Time => x.1)) c4
    simpa [idleStamps, List.map_map, Function.comp_def] using this
  refine ⟨idleKdup, e, p, hrun, hpk, hpp, ha, het, c1, ?_, c4,
    (C19_finished_outside_all_windows_mem_simpy {} c04Wdup c04Wdup_wf idleKdup hrun.toReach hpk hpp ha c1).2⟩
  rw [hids]
  decide

/-! ## the side condition on the oracle (`ReachOk`) cannot be dropped for the cluster's clause

`Reach` lets the oracle of a USER scheduling algorithm (`alg = .oracle`) apply any list of cluster
operations as "its own reservations" (`orc.pre`).  `ReachOk` restricts them to the public reservation
API (`provision_batch_resources` / `release_batch_resources`).  Without the restriction a user algorithm
that resumes the cluster's allocation generator itself (`ClOp.finish`) empties the running list while a
body is between its two stamps, and `is_idle()` answers True inside a recorded interval.  (Not a
finding about the shipped code: the four shipped algorithms never do this, `…_shipped`.) -/

/-- the cluster's clause over plain `Reach`, any oracle -/
def C19_cluster_idle_any_oracle_statement : Prop :=
  ∀ (s0 s : Sys), WFConfig s0 → Reach s0 s → s.cl.isIdle = true →
    ∀ t r a, s.task? t = some r → r.ast = some a → ∃ f, r.aft = some f

/-- `c04W1` with a user algorithm -/
def idleWor : Sys := { c04W1 with alg := .oracle }

theorem idleWor_wf : WFConfig idleWor := by
  refine ⟨by decide, rfl, by decide, ?_, ⟨rfl, rfl, rfl, rfl, rfl, rfl, rfl, rfl, rfl, rfl, rfl, rfl, rfl,
    rfl, rfl, rfl, rfl⟩⟩
  intro o ho
  simp only [idleWor, c04W1, List.mem_cons, List.not_mem_nil, or_false] at ho
  subst ho
  exact ⟨rfl, rfl, by decide, by decide⟩

/-- instant 0: monitor, telescope (admits the observation), the ingest chain (supervisor 5, provisioner
6, stream 7 — the observation lasts one step, so it is stored at once), the ingest allocation process 8,
the first block of the ingest body 9 (recorded start 0, due again at 0), cluster loop, scheduler loop
(plans the observation, creates `allocate_tasks` = 10), buffer loop; then the first block of
`allocate_tasks` with an oracle whose "own reservation" is `ClOp.finish 0`: it ends the polling entry
of the ingest task -/
def idleSchedOr : List (Nat × Oracle) :=
  ([0, 1, 5, 6, 7, 8, 9, 2, 3, 4].map (fun pid => (pid, ({} : Oracle)))) ++
    [(10, ({ pre := [.finish 0] } : Oracle))]

theorem idleSchedOr_chk :
    (precEnabledAllO idleSchedOr idleWor.start &&
      (precRunO idleSchedOr idleWor.start).cl.isIdle &&
      decide ((precRunO idleSchedOr idleWor.start).crashed = none) &&
      decide (((precRunO idleSchedOr idleWor.start).task? (.ingest 0 0)).map (fun r => (r.ast, r.aft))
        = some (some 0, none))) = true := by
  decide +kernel

/-- **Without the side condition the clause is false**: after the eleven blocks of `idleSchedOr` (all
in instant 0, no exception) the cluster reports idle and the record of the ingest task has a recorded
start (0) and no recorded finish — its body is alive, due at 0. -/
theorem C19_cluster_idle_any_oracle_statement_false : ¬ C19_cluster_idle_any_oracle_statement := by
  intro hst
  have hc := idleSchedOr_chk
  simp only [Bool.and_eq_true, decide_eq_true_eq] at hc
  obtain ⟨⟨⟨c1, c2⟩, _⟩, c4⟩ := hc
  have hr : Reach idleWor (precRunO idleSchedOr idleWor.start) := prec_reach_runO idleSchedOr _ Reach.start c1
  cases hrec : (precRunO idleSchedOr idleWor.start).task? (.ingest 0 0) with
  | none => rw [hrec] at c4; simp at c4
  | some r =>
    rw [hrec] at c4
    simp only [Option.map_some, Option.some.injEq, Prod.mk.injEq] at c4
    obtain ⟨f, hf⟩ := hst idleWor _ idleWor_wf hr c2 _ r 0 hrec c4.1
    rw [c4.2] at hf; cases hf

end Topsim
