/-
  C07 along trajectories — "buffer space is conserved and never over- or
  under-flows", for every state of every run of the block system (`ReachOk`: any
  order of the blocks of an instant, any oracle input) that has not raised, and
  for the runs of the simulator (SimPy's order).

  Proved: the accounting identity (tier moves in flight included); the buffer of
  every such state is `run` of a well-formed L1 operation history, so every L1
  theorem of `TopsimProps/C07.lean`, `C18.lean` about `run` applies; free space
  never exceeds capacity in either tier; the removing block frees exactly the
  observation's size; at the end both tiers are full-free and every observation
  has deposited exactly rate × duration.

  FALSE of the model, kept as statements with their negations proved on concrete
  simulator runs: `0 ≤ hot free space` (known finding K3) and `0 ≤ cold free
  space` (new: concurrent `move_hot_to_cold` processes over-commit the cold
  tier).  Both hold under the premise that the resident data fits the tier.
-/
import TopsimProps.C07
import TopsimProps.L3
import TopsimProofs.BufTraj3
import TopsimProofs.BufTraj12

namespace Topsim
namespace Sys

/-! ### (1) accounting, and the refinement to L1 histories -/

/-- (1) At every state of every run that has not raised, the used space of the hot and the cold
tier together equals the data of the observations resident in them: everything deposited so far
(`buf.size`) for the observations not yet removed (`hot.finished`).  An observation whose tier
move is in flight is in no list of either tier; its data is counted all the same.
Hypotheses: the initial buffer holds no observation (`hb0`), nothing is recorded as deposited and
both tiers start full-free (`hfull`). -/
theorem C07_accounting_traj (s0 s : Sys) (hw : WFConfig s0)
    (hb0 : s0.buf.hot.stored = [] ∧ s0.buf.hot.scheduled = [] ∧ s0.buf.hot.finished = [] ∧
      s0.buf.cold.stored = [])
    (hfull : s0.buf.size = [] ∧ s0.buf.hot.cur = s0.buf.hot.total ∧ s0.buf.cold.cur = s0.buf.cold.total)
    (h : ReachOk s0 s) (hc : s.crashed = none) :
    (s.buf.hot.total - s.buf.hot.cur) + (s.buf.cold.total - s.buf.cold.cur) = s.buf.residentData := by
  have hbuf : bufList s0.buf = [] := by
    obtain ⟨h1, h2, h3, h4⟩ := hb0
    simp [bufList, h1, h2, h3, h4]
  exact reachOk_accounting s0 s hw hbuf hfull h hc

/-- (6) Refinement: the buffer of every state of every run that has not raised is the initial
buffer after a well-formed history of buffer operations (deposit / store / hand-over / removal /
tier-move steps).  Every theorem about `Buffer.run` over `WFHist` histories (C07, C18) therefore
holds of the buffer of every such state. -/
theorem C07_refines_L1_traj (s0 s : Sys) (hw : WFConfig s0)
    (hb0 : s0.buf.hot.stored = [] ∧ s0.buf.hot.scheduled = [] ∧ s0.buf.hot.finished = [] ∧
      s0.buf.cold.stored = [])
    (h : ReachOk s0 s) (hc : s.crashed = none) :
    ∃ ops, Buffer.WFHist s0.buf ops ∧ s.buf = s0.buf.run ops := by
  have hbuf : bufList s0.buf = [] := by
    obtain ⟨h1, h2, h3, h4⟩ := hb0
    simp [bufList, h1, h2, h3, h4]
  exact reachOk_ref s0 s hw hbuf h hc

/-! ### (2) bounds -/

/-- (2) Free space never exceeds capacity, in either tier.  `hrate`: ingest rates are positive
(a negative rate would give space back). -/
theorem C07_upper_bounds_traj (s0 s : Sys) (hw : WFConfig s0)
    (hb0 : s0.buf.hot.stored = [] ∧ s0.buf.hot.scheduled = [] ∧ s0.buf.hot.finished = [] ∧
      s0.buf.cold.stored = [])
    (hfull : s0.buf.size = [] ∧ s0.buf.hot.cur = s0.buf.hot.total ∧ s0.buf.cold.cur = s0.buf.cold.total)
    (hrate : ∀ o ∈ s0.obs, 0 < o.rate) (h : ReachOk s0 s) (hc : s.crashed = none) :
    s.buf.hot.cur ≤ s.buf.hot.total ∧ s.buf.cold.cur ≤ s.buf.cold.total := by
  have hbuf : bufList s0.buf = [] := by
    obtain ⟨h1, h2, h3, h4⟩ := hb0
    simp [bufList, h1, h2, h3, h4]
  obtain ⟨h1, h2, _, _⟩ := reachOk_upper_bounds s0 s hw hbuf hfull hrate h hc
  exact ⟨h1, h2⟩

/-- (2), lower bounds, FULL STATEMENT for the hot tier — false (known finding K3: admission
compares the volume with the free space of the moment and reserves nothing). -/
def C07_hot_lower_bound_traj_statement : Prop :=
  ∀ (s0 s : Sys), WFConfig s0 →
    (s0.buf.hot.stored = [] ∧ s0.buf.hot.scheduled = [] ∧ s0.buf.hot.finished = [] ∧ s0.buf.cold.stored = []) →
    (s0.buf.size = [] ∧ s0.buf.hot.cur = s0.buf.hot.total ∧ s0.buf.cold.cur = s0.buf.cold.total) →
    (∀ o ∈ s0.obs, 0 < o.rate) → ReachOk s0 s → s.crashed = none → 0 ≤ s.buf.hot.cur

/-- K3 on a run of the simulator (configuration `c07WH`, TopsimProofs/BufTraj3.lean): two
observations of 30 × 2 are admitted at t = 0 against a hot buffer of 100; after the deposits of
t = 1 its free space is −20 and nothing has raised. -/
theorem C07_hot_lower_bound_traj_neg : ¬ C07_hot_lower_bound_traj_statement := by
  intro hst
  have := hst c07WH c07KH.st c07WH_wf ⟨rfl, rfl, rfl, rfl⟩ ⟨rfl, rfl, rfl⟩ c07WH_rate c07KH_reach c07KH_spec.2.1
  rw [c07KH_spec.2.2.1] at this
  exact absurd this (by decide)

/-- (2), lower bounds, FULL STATEMENT for the cold tier — false as well. -/
def C07_cold_lower_bound_traj_statement : Prop :=
  ∀ (s0 s : Sys), WFConfig s0 →
    (s0.buf.hot.stored = [] ∧ s0.buf.hot.scheduled = [] ∧ s0.buf.hot.finished = [] ∧ s0.buf.cold.stored = []) →
    (s0.buf.size = [] ∧ s0.buf.hot.cur = s0.buf.hot.total ∧ s0.buf.cold.cur = s0.buf.cold.total) →
    (∀ o ∈ s0.obs, 0 < o.rate) → ReachOk s0 s → s.crashed = none → 0 ≤ s.buf.cold.cur

/-- The cold tier is over-committed by concurrent `move_hot_to_cold` processes, on a run of the
simulator (configuration `c07WC`, TopsimProofs/BufTraj3.lean): hot 140, cold 110 at rate 10, three
observations of 40 stored at t = 0 (hot 86 % full).  The buffer loop starts one move per timestep
at t = 1, 2, 3; `ColdBuffer.has_capacity_for` sees the free space of the moment (110, 100, 80)
and counts only the ONE observation in the cold transfer slot (40 + 40 ≤ 80); the three moves
deliver 120 into a cold tier of 110: free space −10 from t = 6 on, nothing has raised. -/
theorem C07_cold_lower_bound_traj_neg : ¬ C07_cold_lower_bound_traj_statement := by
  intro hst
  have := hst c07WC c07KC.st c07WC_wf ⟨rfl, rfl, rfl, rfl⟩ ⟨rfl, rfl, rfl⟩ c07WC_rate c07KC_reach c07KC_spec.2.1
  rw [c07KC_spec.2.2.1] at this
  exact absurd this (by decide)

/-- (2), what does hold of the lower bounds: in a state in which the resident data (the volumes
deposited so far for the observations not yet removed) does not exceed the capacity of a tier,
the free space of that tier is not negative.  (The trajectory form of `C07_bounds_partial`, tier
moves included.) -/
theorem C07_lower_bounds_traj_partial (s0 s : Sys) (hw : WFConfig s0)
    (hb0 : s0.buf.hot.stored = [] ∧ s0.buf.hot.scheduled = [] ∧ s0.buf.hot.finished = [] ∧
      s0.buf.cold.stored = [])
    (hfull : s0.buf.size = [] ∧ s0.buf.hot.cur = s0.buf.hot.total ∧ s0.buf.cold.cur = s0.buf.cold.total)
    (hrate : ∀ o ∈ s0.obs, 0 < o.rate) (h : ReachOk s0 s) (hc : s.crashed = none) :
    (s.buf.residentData ≤ s.buf.hot.total → 0 ≤ s.buf.hot.cur) ∧
    (s.buf.residentData ≤ s.buf.cold.total → 0 ≤ s.buf.cold.cur) := by
  have hbuf : bufList s0.buf = [] := by
    obtain ⟨h1, h2, h3, h4⟩ := hb0
    simp [bufList, h1, h2, h3, h4]
  obtain ⟨_, _, h3, h4⟩ := reachOk_upper_bounds s0 s hw hbuf hfull hrate h hc
  exact ⟨h3, h4⟩

/-- (2), the lower bound of the hot tier under a premise on the configuration of the moment that
excludes K3: if the volumes rate × duration of the observations that have begun (left WAITING) and
have not been removed from the hot buffer fit the hot tier's capacity, its free space is not
negative — and likewise for the cold tier.  (The resident data never exceeds these volumes.) -/
theorem C07_lower_bounds_begun_volume_traj (s0 s : Sys) (hw : WFConfig s0)
    (hb0 : s0.buf.hot.stored = [] ∧ s0.buf.hot.scheduled = [] ∧ s0.buf.hot.finished = [] ∧
      s0.buf.cold.stored = [])
    (hfull : s0.buf.size = [] ∧ s0.buf.hot.cur = s0.buf.hot.total ∧ s0.buf.cold.cur = s0.buf.cold.total)
    (hrate : ∀ o ∈ s0.obs, 0 < o.rate) (h : ReachOk s0 s) (hc : s.crashed = none) :
    s.buf.residentData ≤
      ((s.obs.filter (fun ob => ob.status != .waiting && !s.buf.hot.finished.contains ob.id)).map
        (fun ob => ob.rate * (ob.duration : Int))).sum ∧
    (((s.obs.filter (fun ob => ob.status != .waiting && !s.buf.hot.finished.contains ob.id)).map
        (fun ob => ob.rate * (ob.duration : Int))).sum ≤ s.buf.hot.total → 0 ≤ s.buf.hot.cur) ∧
    (((s.obs.filter (fun ob => ob.status != .waiting && !s.buf.hot.finished.contains ob.id)).map
        (fun ob => ob.rate * (ob.duration : Int))).sum ≤ s.buf.cold.total → 0 ≤ s.buf.cold.cur) := by
  have hbuf : bufList s0.buf = [] := by
    obtain ⟨h1, h2, h3, h4⟩ := hb0
    simp [bufList, h1, h2, h3, h4]
  have hle := resident_le_begunVolume s0 s hw hbuf hfull hrate h hc
  unfold begunVolume at hle
  obtain ⟨l1, l2⟩ := C07_lower_bounds_traj_partial s0 s hw hb0 hfull hrate h hc
  exact ⟨hle, fun hv => l1 (Int.le_trans hle hv), fun hv => l2 (Int.le_trans hle hv)⟩

/-- (2), towards the premise above: what an observation has deposited so far is never negative
and never more than its volume rate × duration. -/
theorem C07_deposited_le_volume_traj (s0 s : Sys) (hw : WFConfig s0)
    (hb0 : s0.buf.hot.stored = [] ∧ s0.buf.hot.scheduled = [] ∧ s0.buf.hot.finished = [] ∧
      s0.buf.cold.stored = [])
    (hfull : s0.buf.size = [] ∧ s0.buf.hot.cur = s0.buf.hot.total ∧ s0.buf.cold.cur = s0.buf.cold.total)
    (hrate : ∀ o ∈ s0.obs, 0 < o.rate) (h : ReachOk s0 s) (hc : s.crashed = none) :
    ∀ ob ∈ s.obs, 0 ≤ s.buf.sizeOf ob.id ∧ s.buf.sizeOf ob.id ≤ ob.rate * ob.duration := by
  have hbuf : bufList s0.buf = [] := by
    obtain ⟨h1, h2, h3, h4⟩ := hb0
    simp [bufList, h1, h2, h3, h4]
  exact deposited_le_volume s0 s hw hbuf
    ⟨hfull.1, by rw [hfull.2.1]; exact Int.le_refl _, by rw [hfull.2.2]; exact Int.le_refl _⟩ hrate h hc

/-! ### (3) removal frees exactly the size -/

/-- (3) Whatever block runs (any state, any process, any oracle input): if observation `o` is
among the removed ones after the block and was not before, then it was in `scheduled`, the hot
tier's free space grew by exactly its recorded size, it went from `scheduled` to `finished`, and
nothing else of the buffer's counters changed (capacity, stored list, the cold tier, the
recorded sizes). -/
theorem C07_removed_frees_exact_traj (s : Sys) (pid : Nat) (orc : Oracle) (o : Oid)
    (hbefore : o ∉ s.buf.hot.finished) (hafter : o ∈ (s.resume pid orc).1.buf.hot.finished) :
    o ∈ s.buf.hot.scheduled ∧
    (s.resume pid orc).1.buf.hot.cur = s.buf.hot.cur + s.buf.sizeOf o ∧
    (s.resume pid orc).1.buf.hot.finished = s.buf.hot.finished ++ [o] ∧
    (s.resume pid orc).1.buf.hot.scheduled = s.buf.hot.scheduled.erase o ∧
    (s.resume pid orc).1.buf.hot.total = s.buf.hot.total ∧
    (s.resume pid orc).1.buf.hot.stored = s.buf.hot.stored ∧
    (s.resume pid orc).1.buf.cold = s.buf.cold ∧
    (s.resume pid orc).1.buf.size = s.buf.size :=
  removed_frees_exact s pid orc o hbefore hafter

/-! ### (4) the end of a run -/

/-- (4) An observation the telescope has marked FINISHED has deposited exactly rate × duration,
at every state of every run that has not raised. -/
theorem C07_finished_obs_size_traj (s0 s : Sys) (hw : WFConfig s0)
    (hb0 : s0.buf.hot.stored = [] ∧ s0.buf.hot.scheduled = [] ∧ s0.buf.hot.finished = [] ∧
      s0.buf.cold.stored = [])
    (hfull : s0.buf.size = [] ∧ s0.buf.hot.cur = s0.buf.hot.total ∧ s0.buf.cold.cur = s0.buf.cold.total)
    (hrate : ∀ o ∈ s0.obs, 0 < o.rate) (h : ReachOk s0 s) (hc : s.crashed = none) :
    ∀ ob ∈ s.obs, ob.status = .finished → s.buf.sizeOf ob.id = ob.rate * ob.duration := by
  have hbuf : bufList s0.buf = [] := by
    obtain ⟨h1, h2, h3, h4⟩ := hb0
    simp [bufList, h1, h2, h3, h4]
  exact finished_size s0 s hw hbuf
    ⟨hfull.1, by rw [hfull.2.1]; exact Int.le_refl _, by rw [hfull.2.2]; exact Int.le_refl _⟩ hrate h hc

/-- (4) When `is_finished()` holds both tiers are back at full free capacity, every observation
has been removed from the hot buffer, no data is resident, and every observation has deposited
exactly rate × duration. -/
theorem C07_end_full_traj (s0 s : Sys) (hw : WFConfig s0)
    (hb0 : s0.buf.hot.stored = [] ∧ s0.buf.hot.scheduled = [] ∧ s0.buf.hot.finished = [] ∧
      s0.buf.cold.stored = [])
    (hfull : s0.buf.size = [] ∧ s0.buf.hot.cur = s0.buf.hot.total ∧ s0.buf.cold.cur = s0.buf.cold.total)
    (hrate : ∀ o ∈ s0.obs, 0 < o.rate) (h : ReachOk s0 s) (hf : s.isFinished = true) (hc : s.crashed = none) :
    s.buf.hot.cur = s.buf.hot.total ∧ s.buf.cold.cur = s.buf.cold.total ∧ s.buf.residentData = 0 ∧
    ∀ ob ∈ s.obs, ob.id ∈ s.buf.hot.finished ∧ s.buf.sizeOf ob.id = ob.rate * ob.duration := by
  obtain ⟨hfin, _, _, _, _, _, _, h1, h2⟩ := C04_finished_quiescent s hf
  have hbuf : bufList s0.buf = [] := by
    obtain ⟨h1, h2, h3, h4⟩ := hb0
    simp [bufList, h1, h2, h3, h4]
  have hsz0 : s0.buf.size = [] ∧ s0.buf.hot.cur ≤ s0.buf.hot.total ∧ s0.buf.cold.cur ≤ s0.buf.cold.total :=
    ⟨hfull.1, by rw [hfull.2.1]; exact Int.le_refl _, by rw [hfull.2.2]; exact Int.le_refl _⟩
  have hacct := C07_accounting_traj s0 s hw hb0 hfull h hc
  refine ⟨h1, h2, by rw [← hacct, h1, h2]; omega, fun ob hob => ⟨?_, ?_⟩⟩
  · exact finished_all_removed2 s0 s hw hbuf hsz0 hrate h hf hc ob hob
  · exact C07_finished_obs_size_traj s0 s hw hb0 hfull hrate h hc ob hob (hfin ob hob)

/-! ### (5) along the runs of the simulator -/

/-- (1) along the simulator's runs -/
theorem C07_accounting_simpy (env : SimEnv) (s0 : Sys) (hw : WFConfig s0)
    (hb0 : s0.buf.hot.stored = [] ∧ s0.buf.hot.scheduled = [] ∧ s0.buf.hot.finished = [] ∧
      s0.buf.cold.stored = [])
    (hfull : s0.buf.size = [] ∧ s0.buf.hot.cur = s0.buf.hot.total ∧ s0.buf.cold.cur = s0.buf.cold.total)
    (k : SimState) (h : SimRun env s0 k) (hc : k.st.crashed = none) :
    (k.st.buf.hot.total - k.st.buf.hot.cur) + (k.st.buf.cold.total - k.st.buf.cold.cur)
      = k.st.buf.residentData :=
  L3_transfer env s0 hw
    (fun s => s.crashed = none →
      (s.buf.hot.total - s.buf.hot.cur) + (s.buf.cold.total - s.buf.cold.cur) = s.buf.residentData)
    (fun s hs hc => C07_accounting_traj s0 s hw hb0 hfull hs hc) (by intro _ h; exact h) k h hc

/-- (6) along the simulator's runs -/
theorem C07_refines_L1_simpy (env : SimEnv) (s0 : Sys) (hw : WFConfig s0)
    (hb0 : s0.buf.hot.stored = [] ∧ s0.buf.hot.scheduled = [] ∧ s0.buf.hot.finished = [] ∧
      s0.buf.cold.stored = [])
    (k : SimState) (h : SimRun env s0 k) (hc : k.st.crashed = none) :
    ∃ ops, Buffer.WFHist s0.buf ops ∧ k.st.buf = s0.buf.run ops :=
  L3_transfer env s0 hw
    (fun s => s.crashed = none → ∃ ops, Buffer.WFHist s0.buf ops ∧ s.buf = s0.buf.run ops)
    (fun s hs hc => C07_refines_L1_traj s0 s hw hb0 hs hc) (by intro _ h; exact h) k h hc

/-- (2) along the simulator's runs: free space never exceeds capacity; it is not negative in a
tier whose capacity the resident data does not exceed -/
theorem C07_bounds_simpy (env : SimEnv) (s0 : Sys) (hw : WFConfig s0)
    (hb0 : s0.buf.hot.stored = [] ∧ s0.buf.hot.scheduled = [] ∧ s0.buf.hot.finished = [] ∧
      s0.buf.cold.stored = [])
    (hfull : s0.buf.size = [] ∧ s0.buf.hot.cur = s0.buf.hot.total ∧ s0.buf.cold.cur = s0.buf.cold.total)
    (hrate : ∀ o ∈ s0.obs, 0 < o.rate) (k : SimState) (h : SimRun env s0 k) (hc : k.st.crashed = none) :
    k.st.buf.hot.cur ≤ k.st.buf.hot.total ∧ k.st.buf.cold.cur ≤ k.st.buf.cold.total ∧
    (k.st.buf.residentData ≤ k.st.buf.hot.total → 0 ≤ k.st.buf.hot.cur) ∧
    (k.st.buf.residentData ≤ k.st.buf.cold.total → 0 ≤ k.st.buf.cold.cur) :=
  L3_transfer env s0 hw
    (fun s => s.crashed = none →
      s.buf.hot.cur ≤ s.buf.hot.total ∧ s.buf.cold.cur ≤ s.buf.cold.total ∧
      (s.buf.residentData ≤ s.buf.hot.total → 0 ≤ s.buf.hot.cur) ∧
      (s.buf.residentData ≤ s.buf.cold.total → 0 ≤ s.buf.cold.cur))
    (fun s hs hc =>
      ⟨(C07_upper_bounds_traj s0 s hw hb0 hfull hrate hs hc).1, (C07_upper_bounds_traj s0 s hw hb0 hfull hrate hs hc).2,
        (C07_lower_bounds_traj_partial s0 s hw hb0 hfull hrate hs hc).1,
        (C07_lower_bounds_traj_partial s0 s hw hb0 hfull hrate hs hc).2⟩)
    (by intro _ h; exact h) k h hc

/-- (4) along the simulator's runs -/
theorem C07_end_full_simpy (env : SimEnv) (s0 : Sys) (hw : WFConfig s0)
    (hb0 : s0.buf.hot.stored = [] ∧ s0.buf.hot.scheduled = [] ∧ s0.buf.hot.finished = [] ∧
      s0.buf.cold.stored = [])
    (hfull : s0.buf.size = [] ∧ s0.buf.hot.cur = s0.buf.hot.total ∧ s0.buf.cold.cur = s0.buf.cold.total)
    (hrate : ∀ o ∈ s0.obs, 0 < o.rate) (k : SimState) (h : SimRun env s0 k)
    (hf : k.st.isFinished = true) (hc : k.st.crashed = none) :
    k.st.buf.hot.cur = k.st.buf.hot.total ∧ k.st.buf.cold.cur = k.st.buf.cold.total ∧
    k.st.buf.residentData = 0 ∧
    ∀ ob ∈ k.st.obs, ob.id ∈ k.st.buf.hot.finished ∧ k.st.buf.sizeOf ob.id = ob.rate * ob.duration :=
  L3_transfer env s0 hw
    (fun s => s.isFinished = true → s.crashed = none →
      s.buf.hot.cur = s.buf.hot.total ∧ s.buf.cold.cur = s.buf.cold.total ∧ s.buf.residentData = 0 ∧
      ∀ ob ∈ s.obs, ob.id ∈ s.buf.hot.finished ∧ s.buf.sizeOf ob.id = ob.rate * ob.duration)
    (fun s hs hf hc => C07_end_full_traj s0 s hw hb0 hfull hrate hs hf hc) (by intro _ h; exact h) k h hf hc

/-- the over-commitment of the cold tier happens in SimPy's own order: the witness is a state of
an uninterrupted run of the simulator -/
theorem C07_cold_lower_bound_simpy_neg :
    ∃ (s0 : Sys) (k : SimState), WFConfig s0 ∧ SimRun {} s0 k ∧ k.st.crashed = none ∧ k.st.halted = false ∧
      s0.buf = Buffer.init 140 50 110 10 ∧ k.st.buf.cold.cur = -10 :=
  ⟨c07WC, c07KC, c07WC_wf, c07KC_run, c07KC_spec.2.1, c07KC_spec.1, rfl, c07KC_spec.2.2.1⟩

/-! ### non-vacuity -/

-- a state with two `move_hot_to_cold` processes in flight (`c07KC3`: the run of `c07WC` before
-- t = 3; observations 2 and 1 are in no list of either tier): the hypotheses hold, used space is
-- 90 + 30, and the theorem gives the resident data, 3 × 40
example : c07KC3.st.buf.residentData = 120 ∧ c07KC3.st.buf.hot.stored = [0] ∧ c07KC3.st.buf.cold.stored = [] := by
  have h := C07_accounting_traj c07WC c07KC3.st c07WC_wf ⟨rfl, rfl, rfl, rfl⟩ ⟨rfl, rfl, rfl⟩ c07KC3_reach
    c07KC3_spec.2.1
  obtain ⟨_, _, h1, h2, h3, h4, h5, h6, _⟩ := c07KC3_spec
  rw [h1, h2, h3, h4] at h
  exact ⟨by rw [← h]; decide, h5, h6⟩

-- the run of TopsimProofs/Witness2.lean (a hot→cold and a cold→hot move): in the middle, B (10)
-- sits in the cold tier, A and C (45 + 10) in the hot tier; resident data 65, bounds hold
example : c04K2mid.st.buf.residentData = 65 ∧ c04K2mid.st.buf.cold.stored = [2] ∧
    c04K2mid.st.buf.hot.cur ≤ c04K2mid.st.buf.hot.total := by
  have hc : c04K2mid.st.crashed = none := by
    have h := c04K2mid_chk
    simp only [Bool.and_eq_true, Bool.not_eq_true', decide_eq_true_eq] at h
    exact h.1.1.1.1.1.1.2
  have hacc := C07_accounting_traj c04W2 c04K2mid.st c04W2_wf c04W2_buf ⟨rfl, rfl, rfl⟩ c04K2mid_reach hc
  have hub := C07_upper_bounds_traj c04W2 c04K2mid.st c04W2_wf c04W2_buf ⟨rfl, rfl, rfl⟩ c04W2_rate
    c04K2mid_reach hc
  have h := c04K2mid_chk
  simp only [Bool.and_eq_true, Bool.not_eq_true', decide_eq_true_eq] at h
  obtain ⟨⟨⟨⟨⟨⟨_, _⟩, hcs⟩, h1⟩, h2⟩, _⟩, _⟩ := h
  rw [h1, h2, c04K2mid_tot.1, c04K2mid_tot.2] at hacc
  exact ⟨by rw [← hacc]; decide, hcs, hub.1⟩

-- … and at its end: everything removed, both tiers full-free, 45 × 1, 10 × 1, 10 × 1 deposited
example : c04S2.buf.residentData = 0 ∧ c04S2.buf.sizeOf 0 = 45 ∧
    ∀ ob ∈ c04S2.obs, c04S2.buf.sizeOf ob.id = ob.rate * ob.duration := by
  obtain ⟨hf, hc, _⟩ := witChk_spec c04S2_chk
  obtain ⟨_, _, h3, h4⟩ := C07_end_full_traj c04W2 c04S2 c04W2_wf c04W2_buf ⟨rfl, rfl, rfl⟩ c04W2_rate
    c04S2_reach hf hc
  exact ⟨h3, c04S2_sizes.1, fun ob hob => (h4 ob hob).2⟩

end Sys
end Topsim
