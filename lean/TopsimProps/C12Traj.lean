/-
  C12, trajectory clauses — "every row of the per-timestep table reports the true
  state at the beginning of its timestep, one row per step", along the runs of
  the deterministic simulator (SimPy's own order of events).

  What was there: `C12_row_true` (a row computed from a state reports the true
  counts of that state), `C12_monitor_block` / `C12_only_monitor_writes` (block
  level), `C12_rows_count` (block system: as many rows as monitor blocks),
  `C12_row_ignores_doWork`, `C12_begin_of_step`, `C12_before_monitor` (one kernel
  step that precedes the monitor's leaves the row unchanged).  What this file adds
  is the statement along whole runs: which state the `i`-th row is the row of, and
  how many rows there are in every state of a run.

  Vocabulary.  `SimReach env s0 k`: `k` is a state of a run of the simulator from
  `s0` (kernel steps and pause hand-overs).  `k.heap` holds the pending events
  `(time, priority, insertion id, pid)`, `k.peek` is the next one; the monitor is
  process 0.  `k.st.rows` is the table, `s.mkRow n` the row the monitor would write
  in state `s` at timestep `n`.  `s.isDW pid`: process `pid` is a task body
  (`do_work`) — the only processes that can be resumed before the monitor inside an
  instant, because a body sleeps for its whole duration and its wake-up event may
  be older than the monitor's.  `Bdy k` (step boundary): the monitor is alive and its
  event precedes every pending event of a process that is not a task body.
  `QuietTo env k k'`: `k'` is reached from `k` by kernel steps that do not resume
  the monitor (and pause hand-overs).
-/
import TopsimProofs.RowTraj2
import TopsimProps.C12
import TopsimProps.Pause
import TopsimProps.C08Traj

namespace Topsim

open KState

/-! ### (B2) one row per instant, no gap, no duplicate -/

/-- **How many rows there are.**  In every state of every run of the simulator (any delay model,
with or without pauses, before or after an exception): the monitor has exactly one pending event
`m`, at time `rows.length` — the rows of the instants `0 … rows.length - 1` have been written, the
next one will be written at instant `rows.length` — and every other pending event of a process that
is not a task body is either at instant `rows.length - 1` (the instant whose row was written last:
the instant in progress) or at instant `rows.length`, after the monitor's event. -/
theorem C12_one_row_per_step_simpy (env : SimEnv) (s0 : Sys) (hw : Sys.WFConfig s0) (k : SimState)
    (h : SimReach env s0 k) :
    ∃ m ∈ k.heap, m.pid = 0 ∧ m.time = ((k.st.rows.length : Nat) : Time) ∧
      ∀ x ∈ k.heap, x ≠ m → ¬ k.st.isDW x.pid →
        (x.time + 1 = ((k.st.rows.length : Nat) : Time) ∨
         (x.time = ((k.st.rows.length : Nat) : Time) ∧ m.lt x = true)) :=
  sim_rows_pending env s0 hw k h

/-- … read at the next event: if it belongs to a process that is not a task body, it is the
monitor's wake-up at instant `rows.length` (the instant begins: its row is written now), or an event
of instant `rows.length - 1` (the row of the instant in progress is already there). -/
theorem C12_next_event_simpy (env : SimEnv) (s0 : Sys) (hw : Sys.WFConfig s0) (k : SimState)
    (h : SimReach env s0 k) (e : HEntry) (hp : k.peek = some e) (hdw : ¬ k.st.isDW e.pid) :
    (e.pid = 0 ∧ e.time = ((k.st.rows.length : Nat) : Time)) ∨
    (e.pid ≠ 0 ∧ e.time + 1 = ((k.st.rows.length : Nat) : Time)) :=
  sim_rows_next env s0 hw k h e hp hdw

/-- the monitor's kernel step appends exactly one row: the row of the state it finds, stamped with
the number of rows written before (row `i` is the row of timestep `i`) -/
theorem C12_monitor_step_simpy (env : SimEnv) (s0 : Sys) (hw : Sys.WFConfig s0) (k k' : SimState)
    (h : SimReach env s0 k) (e : HEntry) (hp : k.peek = some e) (he : e.pid = 0)
    (hs : k.step (simHandler env) = some k') :
    k'.st.rows = k.st.rows ++ [k.st.mkRow k.st.rows.length] :=
  monitor_step_rows env k k' (sim_rowsInv env s0 hw k h) e hp he hs

/-- every other kernel step, and a pause hand-over, leaves the table as it is -/
theorem C12_other_step_simpy (env : SimEnv) (s0 : Sys) (hw : Sys.WFConfig s0) (k k' : SimState)
    (h : SimReach env s0 k) (e : HEntry) (hp : k.peek = some e) (he : e.pid ≠ 0)
    (hs : k.step (simHandler env) = some k') :
    k'.st.rows = k.st.rows ∧ k.st.collate.rows = k.st.rows :=
  ⟨other_step_rows env k k' (sim_rowsInv env s0 hw k h) e hp he hs, rfl⟩

/-- `run(until=u)` from the start (`u` a whole number) returns with exactly `u` rows: one for each
of the instants `0 … u - 1` -/
theorem C12_rows_at_pause (env : SimEnv) (s0 : Sys) (hw : Sys.WFConfig s0) (u : Nat) (ku : SimState)
    (hr : RunsTo (simHandler env) (u : Time) (SimState.start s0) ku) : ku.st.rows.length = u :=
  runsTo_rows_length env s0 hw u ku hr

/-! ### (B1) the row is the row of the state in which the instant began -/

/-- **The row of instant `T` is computed from the state in which instant `T` began.**  Let `kB` be
a state of a run in which no event before instant `T = rows.length` is pending (everything up to
the last block of instant `T - 1` has been processed).  Let the run go on from `kB` without resuming
the monitor (only task bodies that wake first can run: `C12_before_monitor`) up to a state `k` whose
next event is the monitor's.  The monitor's step then appends to the table exactly the row of `kB`
for timestep `T`. -/
theorem C12_row_begin_of_step_simpy (env : SimEnv) (s0 : Sys) (hw : Sys.WFConfig s0) (kB k k' : SimState)
    (h : SimReach env s0 kB)
    (hall : ∀ x ∈ kB.heap, ((kB.st.rows.length : Nat) : Time) ≤ x.time)
    (hq : QuietTo env kB k) (e : HEntry) (hp : k.peek = some e) (he : e.pid = 0)
    (hs : k.step (simHandler env) = some k') :
    k'.st.rows = kB.st.rows ++ [kB.st.mkRow kB.st.rows.length] :=
  sim_row_begin_of_step env s0 hw kB k k' h (Bdy.of_instant_begins env s0 hw kB h hall) hq e hp he hs

/-- the same from any step boundary (`Bdy`; e.g. a pause point, `C11_pause_point_is_boundary`) -/
theorem C12_row_begin_of_step_bdy (env : SimEnv) (s0 : Sys) (hw : Sys.WFConfig s0) (kB k k' : SimState)
    (h : SimReach env s0 kB) (hb : Bdy kB)
    (hq : QuietTo env kB k) (e : HEntry) (hp : k.peek = some e) (he : e.pid = 0)
    (hs : k.step (simHandler env) = some k') :
    k'.st.rows = kB.st.rows ++ [kB.st.mkRow kB.st.rows.length] :=
  sim_row_begin_of_step env s0 hw kB k k' h hb hq e hp he hs

/-- between the beginning of the instant and the monitor's step only task bodies run, the state
stays a step boundary, and neither the row nor the table changes -/
theorem C12_quiet_keeps (env : SimEnv) (kB k : SimState) (hb : Bdy kB) (hq : QuietTo env kB k) :
    Bdy k ∧ (∀ n, k.st.mkRow n = kB.st.mkRow n) ∧ k.st.rows = kB.st.rows :=
  hq.keeps hb

/-- … and that row reports the true state of `kB` (`C12_row_true` at the beginning of the
instant): the counters in the new last row are the numbers recomputed from the pools and lists of
the state in which the instant began. -/
theorem C12_row_true_begin_of_step_simpy (env : SimEnv) (s0 : Sys) (hw : Sys.WFConfig s0)
    (kB k k' : SimState) (h : SimReach env s0 kB)
    (hall : ∀ x ∈ kB.heap, ((kB.st.rows.length : Nat) : Time) ≤ x.time)
    (hq : QuietTo env kB k) (e : HEntry) (hp : k.peek = some e) (he : e.pid = 0)
    (hs : k.step (simHandler env) = some k') :
    ∃ r, k'.st.rows = kB.st.rows ++ [r] ∧
      r.running = (kB.st.cl.running.length : Int) ∧
      r.available = (kB.st.cl.machines.length : Int) - kB.st.cl.running.length ∧
      r.ingest = ((kB.st.cl.running.filter Tid.isIngest).length : Int) ∧
      r.finished = ((kB.st.cl.finished.filter (·.2)).length : Int) ∧
      r.provisioned = kB.st.cl.idle.length ∧
      r.hot = kB.st.buf.hot.cur ∧ r.cold = kB.st.buf.cold.cur ∧
      r.stored = kB.st.buf.hot.stored.length + kB.st.buf.cold.stored.length ∧
      r.waiting = (kB.st.obs.filter (·.status = .waiting)).length ∧
      r.obsFinished = (kB.st.obs.filter (·.status = .finished)).length ∧
      r.queue = kB.st.queue.length := by
  obtain ⟨U, hU⟩ := (h.inv hw).1.ci
  exact ⟨_, C12_row_begin_of_step_simpy env s0 hw kB k k' h hall hq e hp he hs,
    Sys.C12_row_true kB.st U hU.inv kB.st.rows.length⟩

/-! ### non-vacuity -/

/-- the start of a simulation is the beginning of instant 0 -/
example (env : SimEnv) (s0 : Sys) (hw : Sys.WFConfig s0) :
    SimReach env s0 (SimState.start s0) ∧
    ∀ x ∈ (SimState.start s0).heap, (((SimState.start s0).st.rows.length : Nat) : Time) ≤ x.time := by
  refine ⟨SimReach.start, ?_⟩
  intro x hx
  have hr : (SimState.start s0).st.rows = [] := by
    have : (SimState.start s0).st.rows = s0.rows := by simp [SimState.start, Sys.start, Sys.spawn]
    rw [this]; exact hw.fresh.2.2.2.2.2.2.2.2.2.2.2.1
  rw [hr, (SimState.start_heap s0).1] at *
  simp only [List.mem_cons, List.not_mem_nil, or_false] at hx
  rcases hx with rfl | rfl | rfl | rfl | rfl <;> simp

/-- a run in which a task body is resumed before the monitor inside an instant: `precW0` with the
delay script `[3]`.  After 78 kernel steps instant 11 begins (11 rows, nothing pending before 11):
the body of `precB` is alive and one task is running.  The next event is the body's last block
(process 14), which ends the body; then the monitor writes row 11 — with `running = 1`, the state
at the beginning of the instant. -/
-- F13: 78 steps / instant 11 (before the repair 72 steps / instant 10: `precB` starts one step later)
example : ∃ kB k k' : SimState, SimReach { delayScript := [3] } Sys.precW0 kB ∧
    (∀ x ∈ kB.heap, ((kB.st.rows.length : Nat) : Time) ≤ x.time) ∧ kB.st.rows.length = 11 ∧
    QuietTo { delayScript := [3] } kB k ∧ kB.st.active = [(0, Sys.precB)] ∧ k.st.active = [] ∧
    k'.st.rows = kB.st.rows ++ [kB.st.mkRow 11] ∧ (kB.st.mkRow 11).running = 1 := by
  obtain ⟨h1, h2, h3, h4, h5, h6, h7⟩ := rowSim78
  generalize hkB : ilSimSteps { delayScript := [3] } 78 (SimState.start Sys.precW0) = kB at *
  have hreach : SimReach { delayScript := [3] } Sys.precW0 kB := hkB ▸ SimReach.start.steps 78
  cases hp : kB.peek with
  | none => rw [hp] at h3; simp at h3
  | some e =>
    rw [hp] at h3
    simp only [Option.map_some, Option.some.injEq] at h3
    obtain ⟨k, hs⟩ := step_isSome (simHandler { delayScript := [3] }) kB e hp
    rw [ilSimSteps_one _ hs] at h4 h6
    cases hp' : k.peek with
    | none => rw [hp'] at h4; simp at h4
    | some e' =>
      rw [hp'] at h4
      simp only [Option.map_some, Option.some.injEq] at h4
      obtain ⟨k', hs'⟩ := step_isSome (simHandler { delayScript := [3] }) k e' hp'
      have hall : ∀ x ∈ kB.heap, ((kB.st.rows.length : Nat) : Time) ≤ x.time := by
        intro x hx
        rw [h1]
        exact h2 x hx
      have hq : QuietTo { delayScript := [3] } kB k :=
        QuietTo.step kB k k e hp (by omega) hs (QuietTo.refl k)
      refine ⟨kB, k, k', hreach, hall, h1, hq, h5, h6, ?_, h7⟩
      have := C12_row_begin_of_step_simpy _ _ Sys.precW0_wf kB k k' hreach hall hq e' hp' h4 hs'
      rw [h1] at this
      exact this

/-- `run(until=u)` has a result (non-vacuity of `C12_rows_at_pause` is `C08_simReach_runsTo`); the
executable API produces states of `SimReach` (`C08_simReach_api`) -/
example (env : SimEnv) (s0 : Sys) (u fuel : Nat) : SimReach env s0 (SimState.startUntil env s0 u fuel) :=
  SimReach.startUntil env s0 u fuel

end Topsim
