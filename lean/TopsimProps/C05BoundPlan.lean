/-
  C05, the numeric clause — "runs to completion … within the serial bound" — for the two plan-following
  algorithms (DynamicSchedulingFromPlan, GreedySchedulingFromPlan, static plans) on the deterministic
  simulator (L3, SimPy's own (time, priority, insertion id) order), with NO delay model
  (`env.delayTable = []`, `env.delayScript = []`).  The counterpart of TopsimProps/C05Bound.lean
  (QueueProcessing); vocabulary as there (`C05_clock env s0 n`: SimPy's `env.now` after `n` kernel
  steps; `Sys.serialBound s0`: the bound of the property, latency constant 3).  Hypotheses: those of
  `C05_terminates_{dynamic,greedy}_simpy_noH2` (TopsimProps/C05LivePlan.lean).

  FINDING: the clause AS STATED IS FALSE for both algorithms.
  `do_work` recomputes the duration of a task from its machine only when the task carries work
  (`comp > 0` or `task_data > 0`); a task WITHOUT work runs the planned duration `eft - est` of its
  record (`nominalDuration`, TopsimModel/TaskTime.lean).  Batch planning plans 0 for such a task, a
  static plan plans what its row says, and no hypothesis (`PlanOk`: cover / nodes / mach) ties
  `eft - est` to anything; `Sys.serialBound` charges such a task `max 1 0 + wait + 3`.
    * `C05_bound_plan_counterexample_dynamic`, `C05_bound_plan_counterexample_greedy`: configuration
      `boundP_cxW` with plan `boundP_cxEnv` (TopsimProofs/BoundP11.lean: one machine, one observation, one
      node with comp = task_data = 0, planned `est = 0`, `eft = 40`) meets every hypothesis, its serial
      bound is 10, and at EVERY index at which its run is at `is_finished()` the clock is ≥ 43
      (first such index: 273, by evaluation in the kernel — `decide +kernel`).
    * `C05_bound_dynamic_statement`, `C05_bound_greedy_statement` (the clause as a `Prop`) and
      `C05_bound_dynamic_statement_false`, `C05_bound_greedy_statement_false`.
  The waiting of a ready task for its planned machine — held by a task of ANOTHER workflow or by an
  ingest — is NOT a source of excess: while a task waits some worker process is alive, and the life of
  every worker is pre-paid by the stage that created it (the accounting of Bound1–10 goes through
  unchanged, BoundP1–10).

  What is proved.
  (1) `C05_bound_dynamic_corrected_simpy`, `C05_bound_greedy_corrected_simpy` — all the hypotheses of
      the target, and the SMALLEST CORRECTION of the number: `C05_planSerialBound env s0`
      (= `boundP_serial`, TopsimProofs/BoundP4.lean) is `Sys.serialBound s0` in which the occupancy term
      `max 1 (max (comp / slowCpu) (task_data / slowBw))` of a node with comp = task_data = 0 is replaced
      by `max 1 D`, `D` the largest `eft - est` among the rows of the static plan naming that node;
      every other term, and the constant 3, are unchanged.  `C05_planSerialBound_ge`: it is never
      smaller than `Sys.serialBound`; `C05_planSerialBound_eq`: it IS `Sys.serialBound` when no such
      row plans more than one time step (`C05_PlanDurOk`).  On the counterexample it is 49 (clock 43).
  (2) `C05_bound_dynamic_simpy_partial`, `C05_bound_greedy_simpy_partial` — the target with the
      ORIGINAL number `Sys.serialBound s0`, under the one extra hypothesis `C05_PlanDurOk env s0`
      (every plan row of a node listed with comp = task_data = 0 has `eft - est ≤ 1`; true of every
      configuration whose nodes all carry work, and of the plans of the harness's `StaticPlanning`
      with `slack ≤ 1`).  That hypothesis is what `_partial` lacks with respect to the target; the
      counterexample shows it cannot be dropped.  `C05_bound_plan_work_simpy_partial`: the special
      case "every node carries work".
  (3) `C05_bound_plan_sharp_simpy` — the sharper number `latest + Σ_obs (duration + 3 + Σ_nodes
      (occupancy + ⌈largest transfer / slowest bw⌉ + 1))` (no tier-transfer terms, latency 1 per task).
  (4) the timed stage lemmas (trajectory level): `C05_plan_bound_invariant_simpy`,
      `C05_plan_worker_deadline_simpy`, `C05_plan_poller_unit_simpy`, `C05_plan_idle_admitted_finished_simpy`,
      `C05_plan_idle_enabled_simpy`, `C05_plan_idle_stage_simpy`.
  Not proved: the bound under a delay model.
-/
import TopsimProofs.BoundP12
import TopsimProps.C05Bound
import TopsimProps.C05LivePlan

namespace Topsim

open KState Sys

/-! ### the corrected number -/

/-- the serial bound for a run that follows the static plans of `env` (`c = 3`): `Sys.serialBound` in
which a node without work is charged its planned duration -/
def C05_planSerialBound (env : SimEnv) (s0 : Sys) : Nat := boundP_serial env s0

/-- every row of a static plan that names a node listed with `comp = 0` and `task_data = 0` plans at
most one time step -/
def C05_PlanDurOk (env : SimEnv) (s0 : Sys) : Prop := BoundPDurOk env s0

theorem C05_planSerialBound_ge (env : SimEnv) (s0 : Sys) :
    Sys.serialBound s0 ≤ C05_planSerialBound env s0 := boundP_serial_ge env s0 3

theorem C05_planSerialBound_eq {env : SimEnv} {s0 : Sys} (h : C05_PlanDurOk env s0) :
    C05_planSerialBound env s0 = Sys.serialBound s0 := boundP_serial_eq h 3

/-- when every node of every workflow carries work the plans are irrelevant to the number -/
theorem C05_PlanDurOk_of_work {env : SimEnv} {s0 : Sys}
    (h : ∀ o ∈ s0.obs, ∀ n ∈ o.wf.nodes, 0 < n.2.1 ∨ 0 < n.2.2) : C05_PlanDurOk env s0 := by
  intro o ho n hn h1 h2
  rcases h o ho n hn with h | h <;> omega

/-! ### (1) the bound with the corrected number -/

/-- **`C05_bound_dynamic_corrected_simpy`.**  DynamicSchedulingFromPlan, the hypotheses of
`C05_terminates_dynamic_simpy_noH2`, no delay model: after some number `n` of kernel steps the run is
at `is_finished()`, nothing has raised, the run up to there is one uninterrupted `env.run`, and the
simulated clock is within the corrected serial bound. -/
theorem C05_bound_dynamic_corrected_simpy (env : SimEnv) (s0 : Sys) (hw : Sys.WFConfig s0)
    (hfe : Sys.Feasible s0)
    (hb0 : s0.buf.hot.stored = [] ∧ s0.buf.hot.scheduled = [] ∧ s0.buf.hot.finished = [] ∧
      s0.buf.cold.stored = [])
    (hfull : s0.buf.size = [] ∧ s0.buf.hot.cur = s0.buf.hot.total ∧ s0.buf.cold.cur = s0.buf.cold.total)
    (hct : s0.buf.cold.transfer = none) (hh0 : s0.halted = false)
    (hH1 : Sys.NoTierCfg s0) (halg : s0.alg = .dynamic)
    (hstat : s0.staticPlan = true) (htopo : ∀ o ∈ s0.obs, IsTopo o.wf) (hplan : PlanOk env s0)
    (hd1 : env.delayTable = []) (hd2 : env.delayScript = []) :
    ∃ n, (ilSimSteps env n (SimState.start s0)).st.isFinished = true ∧
      (ilSimSteps env n (SimState.start s0)).st.crashed = none ∧
      SimRun env s0 (ilSimSteps env n (SimState.start s0)) ∧
      C05_clock env s0 n ≤ ((C05_planSerialBound env s0 : Nat) : Time) := by
  obtain ⟨n, h1, h2, h3, h4⟩ :=
    boundP_plan_clock (env := env) ⟨hw, hfe, hb0, hfull, hct, hH1, Or.inl halg, hstat, htopo, hplan, hh0⟩ hd1 hd2
  rw [simAt_eq_ilSimSteps] at h1 h2 h3
  exact ⟨n, h1, h2, h3, h4⟩

/-- **`C05_bound_greedy_corrected_simpy`.**  GreedySchedulingFromPlan (after the F10 repair), same
hypotheses, same number. -/
theorem C05_bound_greedy_corrected_simpy (env : SimEnv) (s0 : Sys) (hw : Sys.WFConfig s0)
    (hfe : Sys.Feasible s0)
    (hb0 : s0.buf.hot.stored = [] ∧ s0.buf.hot.scheduled = [] ∧ s0.buf.hot.finished = [] ∧
      s0.buf.cold.stored = [])
    (hfull : s0.buf.size = [] ∧ s0.buf.hot.cur = s0.buf.hot.total ∧ s0.buf.cold.cur = s0.buf.cold.total)
    (hct : s0.buf.cold.transfer = none) (hh0 : s0.halted = false)
    (hH1 : Sys.NoTierCfg s0) (halg : s0.alg = .greedy)
    (hstat : s0.staticPlan = true) (htopo : ∀ o ∈ s0.obs, IsTopo o.wf) (hplan : PlanOk env s0)
    (hd1 : env.delayTable = []) (hd2 : env.delayScript = []) :
    ∃ n, (ilSimSteps env n (SimState.start s0)).st.isFinished = true ∧
      (ilSimSteps env n (SimState.start s0)).st.crashed = none ∧
      SimRun env s0 (ilSimSteps env n (SimState.start s0)) ∧
      C05_clock env s0 n ≤ ((C05_planSerialBound env s0 : Nat) : Time) := by
  obtain ⟨n, h1, h2, h3, h4⟩ :=
    boundP_plan_clock (env := env) ⟨hw, hfe, hb0, hfull, hct, hH1, Or.inr halg, hstat, htopo, hplan, hh0⟩ hd1 hd2
  rw [simAt_eq_ilSimSteps] at h1 h2 h3
  exact ⟨n, h1, h2, h3, h4⟩

/-! ### (2) the original number, for plans that give a task without work at most one step -/

/-- **`C05_bound_dynamic_simpy_partial`.**  The target for DynamicSchedulingFromPlan with the ORIGINAL
number `Sys.serialBound s0`.  Weaker than the target by exactly one hypothesis, `C05_PlanDurOk env s0`
(no plan row of a node with `comp = task_data = 0` has `eft - est > 1`), which cannot be dropped
(`C05_bound_plan_counterexample_dynamic`). -/
theorem C05_bound_dynamic_simpy_partial (env : SimEnv) (s0 : Sys) (hw : Sys.WFConfig s0)
    (hfe : Sys.Feasible s0)
    (hb0 : s0.buf.hot.stored = [] ∧ s0.buf.hot.scheduled = [] ∧ s0.buf.hot.finished = [] ∧
      s0.buf.cold.stored = [])
    (hfull : s0.buf.size = [] ∧ s0.buf.hot.cur = s0.buf.hot.total ∧ s0.buf.cold.cur = s0.buf.cold.total)
    (hct : s0.buf.cold.transfer = none) (hh0 : s0.halted = false)
    (hH1 : Sys.NoTierCfg s0) (halg : s0.alg = .dynamic)
    (hstat : s0.staticPlan = true) (htopo : ∀ o ∈ s0.obs, IsTopo o.wf) (hplan : PlanOk env s0)
    (hdur : C05_PlanDurOk env s0)
    (hd1 : env.delayTable = []) (hd2 : env.delayScript = []) :
    ∃ n, (ilSimSteps env n (SimState.start s0)).st.isFinished = true ∧
      (ilSimSteps env n (SimState.start s0)).st.crashed = none ∧
      SimRun env s0 (ilSimSteps env n (SimState.start s0)) ∧
      C05_clock env s0 n ≤ ((Sys.serialBound s0 : Nat) : Time) := by
  have := C05_bound_dynamic_corrected_simpy env s0 hw hfe hb0 hfull hct hh0 hH1 halg hstat htopo hplan hd1 hd2
  rwa [C05_planSerialBound_eq hdur] at this

/-- **`C05_bound_greedy_simpy_partial`.**  The same for GreedySchedulingFromPlan. -/
theorem C05_bound_greedy_simpy_partial (env : SimEnv) (s0 : Sys) (hw : Sys.WFConfig s0)
    (hfe : Sys.Feasible s0)
    (hb0 : s0.buf.hot.stored = [] ∧ s0.buf.hot.scheduled = [] ∧ s0.buf.hot.finished = [] ∧
      s0.buf.cold.stored = [])
    (hfull : s0.buf.size = [] ∧ s0.buf.hot.cur = s0.buf.hot.total ∧ s0.buf.cold.cur = s0.buf.cold.total)
    (hct : s0.buf.cold.transfer = none) (hh0 : s0.halted = false)
    (hH1 : Sys.NoTierCfg s0) (halg : s0.alg = .greedy)
    (hstat : s0.staticPlan = true) (htopo : ∀ o ∈ s0.obs, IsTopo o.wf) (hplan : PlanOk env s0)
    (hdur : C05_PlanDurOk env s0)
    (hd1 : env.delayTable = []) (hd2 : env.delayScript = []) :
    ∃ n, (ilSimSteps env n (SimState.start s0)).st.isFinished = true ∧
      (ilSimSteps env n (SimState.start s0)).st.crashed = none ∧
      SimRun env s0 (ilSimSteps env n (SimState.start s0)) ∧
      C05_clock env s0 n ≤ ((Sys.serialBound s0 : Nat) : Time) := by
  have := C05_bound_greedy_corrected_simpy env s0 hw hfe hb0 hfull hct hh0 hH1 halg hstat htopo hplan hd1 hd2
  rwa [C05_planSerialBound_eq hdur] at this

/-- **Every node carries work** (`comp > 0` or `task_data > 0`): either plan-following algorithm,
the original number. -/
theorem C05_bound_plan_work_simpy_partial (env : SimEnv) (s0 : Sys) (hw : Sys.WFConfig s0)
    (hfe : Sys.Feasible s0)
    (hb0 : s0.buf.hot.stored = [] ∧ s0.buf.hot.scheduled = [] ∧ s0.buf.hot.finished = [] ∧
      s0.buf.cold.stored = [])
    (hfull : s0.buf.size = [] ∧ s0.buf.hot.cur = s0.buf.hot.total ∧ s0.buf.cold.cur = s0.buf.cold.total)
    (hct : s0.buf.cold.transfer = none) (hh0 : s0.halted = false)
    (hH1 : Sys.NoTierCfg s0) (halg : s0.alg = .dynamic ∨ s0.alg = .greedy)
    (hstat : s0.staticPlan = true) (htopo : ∀ o ∈ s0.obs, IsTopo o.wf) (hplan : PlanOk env s0)
    (hwork : ∀ o ∈ s0.obs, ∀ n ∈ o.wf.nodes, 0 < n.2.1 ∨ 0 < n.2.2)
    (hd1 : env.delayTable = []) (hd2 : env.delayScript = []) :
    ∃ n, (ilSimSteps env n (SimState.start s0)).st.isFinished = true ∧
      (ilSimSteps env n (SimState.start s0)).st.crashed = none ∧
      SimRun env s0 (ilSimSteps env n (SimState.start s0)) ∧
      C05_clock env s0 n ≤ ((Sys.serialBound s0 : Nat) : Time) := by
  rcases halg with halg | halg
  · exact C05_bound_dynamic_simpy_partial env s0 hw hfe hb0 hfull hct hh0 hH1 halg hstat htopo hplan
      (C05_PlanDurOk_of_work hwork) hd1 hd2
  · exact C05_bound_greedy_simpy_partial env s0 hw hfe hb0 hfull hct hh0 hH1 halg hstat htopo hplan
      (C05_PlanDurOk_of_work hwork) hd1 hd2

/-! ### (3) the sharper number -/

/-- latest planned start + per observation (duration + 3) + per workflow node (occupancy — on the
slowest machine, or as planned when the node has no work — + largest transfer wait rounded up + 1) -/
def C05_planSharpBound (env : SimEnv) (s0 : Sys) : Nat := boundLatest s0 + boundP_VTotal env s0

theorem C05_planSharpBound_le (env : SimEnv) (s0 : Sys) (htopo : ∀ o ∈ s0.obs, IsTopo o.wf) :
    C05_planSharpBound env s0 ≤ C05_planSerialBound env s0 :=
  boundP_total_le_serial env s0 htopo

/-- **The bound with the smaller constants** (either plan-following algorithm): no tier-transfer
terms, latency 1 per task, 3 per observation. -/
theorem C05_bound_plan_sharp_simpy (env : SimEnv) (s0 : Sys) (hw : Sys.WFConfig s0)
    (hfe : Sys.Feasible s0)
    (hb0 : s0.buf.hot.stored = [] ∧ s0.buf.hot.scheduled = [] ∧ s0.buf.hot.finished = [] ∧
      s0.buf.cold.stored = [])
    (hfull : s0.buf.size = [] ∧ s0.buf.hot.cur = s0.buf.hot.total ∧ s0.buf.cold.cur = s0.buf.cold.total)
    (hct : s0.buf.cold.transfer = none) (hh0 : s0.halted = false)
    (hH1 : Sys.NoTierCfg s0) (halg : s0.alg = .dynamic ∨ s0.alg = .greedy)
    (hstat : s0.staticPlan = true) (htopo : ∀ o ∈ s0.obs, IsTopo o.wf) (hplan : PlanOk env s0)
    (hd1 : env.delayTable = []) (hd2 : env.delayScript = []) :
    ∃ n, (ilSimSteps env n (SimState.start s0)).st.isFinished = true ∧
      (ilSimSteps env n (SimState.start s0)).st.crashed = none ∧
      SimRun env s0 (ilSimSteps env n (SimState.start s0)) ∧
      C05_clock env s0 n ≤ ((C05_planSharpBound env s0 : Nat) : Time) := by
  obtain ⟨n, h1, h2, h3, h4⟩ :=
    boundP_plan_clock_sharp (env := env) ⟨hw, hfe, hb0, hfull, hct, hH1, halg, hstat, htopo, hplan, hh0⟩ hd1 hd2
  rw [simAt_eq_ilSimSteps] at h1 h2 h3
  exact ⟨n, h1, h2, h3, h4⟩

/-! ### the clause as stated, and its negation -/

/-- the numeric clause for DynamicSchedulingFromPlan on the simulator, as stated (the original number) -/
def C05_bound_dynamic_statement : Prop :=
  ∀ (env : SimEnv) (s0 : Sys), Sys.WFConfig s0 → Sys.Feasible s0 →
    (s0.buf.hot.stored = [] ∧ s0.buf.hot.scheduled = [] ∧ s0.buf.hot.finished = [] ∧
      s0.buf.cold.stored = []) →
    (s0.buf.size = [] ∧ s0.buf.hot.cur = s0.buf.hot.total ∧ s0.buf.cold.cur = s0.buf.cold.total) →
    s0.buf.cold.transfer = none → s0.halted = false → Sys.NoTierCfg s0 → s0.alg = .dynamic →
    s0.staticPlan = true → (∀ o ∈ s0.obs, IsTopo o.wf) → PlanOk env s0 →
    env.delayTable = [] → env.delayScript = [] →
    ∃ n, (ilSimSteps env n (SimState.start s0)).st.isFinished = true ∧
      (ilSimSteps env n (SimState.start s0)).st.crashed = none ∧
      SimRun env s0 (ilSimSteps env n (SimState.start s0)) ∧
      C05_clock env s0 n ≤ ((Sys.serialBound s0 : Nat) : Time)

/-- the same for GreedySchedulingFromPlan -/
def C05_bound_greedy_statement : Prop :=
  ∀ (env : SimEnv) (s0 : Sys), Sys.WFConfig s0 → Sys.Feasible s0 →
    (s0.buf.hot.stored = [] ∧ s0.buf.hot.scheduled = [] ∧ s0.buf.hot.finished = [] ∧
      s0.buf.cold.stored = []) →
    (s0.buf.size = [] ∧ s0.buf.hot.cur = s0.buf.hot.total ∧ s0.buf.cold.cur = s0.buf.cold.total) →
    s0.buf.cold.transfer = none → s0.halted = false → Sys.NoTierCfg s0 → s0.alg = .greedy →
    s0.staticPlan = true → (∀ o ∈ s0.obs, IsTopo o.wf) → PlanOk env s0 →
    env.delayTable = [] → env.delayScript = [] →
    ∃ n, (ilSimSteps env n (SimState.start s0)).st.isFinished = true ∧
      (ilSimSteps env n (SimState.start s0)).st.crashed = none ∧
      SimRun env s0 (ilSimSteps env n (SimState.start s0)) ∧
      C05_clock env s0 n ≤ ((Sys.serialBound s0 : Nat) : Time)

/-- the hypotheses of the numeric clause, for a given algorithm -/
def C05_bound_plan_hyps (env : SimEnv) (s0 : Sys) : Prop :=
  Sys.WFConfig s0 ∧ Sys.Feasible s0 ∧
    (s0.buf.hot.stored = [] ∧ s0.buf.hot.scheduled = [] ∧ s0.buf.hot.finished = [] ∧
      s0.buf.cold.stored = []) ∧
    (s0.buf.size = [] ∧ s0.buf.hot.cur = s0.buf.hot.total ∧ s0.buf.cold.cur = s0.buf.cold.total) ∧
    s0.buf.cold.transfer = none ∧ s0.halted = false ∧ Sys.NoTierCfg s0 ∧
    s0.staticPlan = true ∧ (∀ o ∈ s0.obs, IsTopo o.wf) ∧ PlanOk env s0 ∧
    env.delayTable = [] ∧ env.delayScript = []

/-- **`C05_bound_plan_counterexample_dynamic`.**  Configuration `boundP_cxW .dynamic` with the static
plan `boundP_cxEnv` meets every hypothesis of the clause; its serial bound is 10; at every index at
which its run is at `is_finished()` the clock is at least 43 (so above the bound); it first is there
after 273 kernel steps with the clock at 43; the corrected bound is 49. -/
theorem C05_bound_plan_counterexample_dynamic :
    C05_bound_plan_hyps boundP_cxEnv (boundP_cxW .dynamic) ∧ (boundP_cxW .dynamic).alg = .dynamic ∧
    Sys.serialBound (boundP_cxW .dynamic) = 10 ∧
    (∀ n, (ilSimSteps boundP_cxEnv n (SimState.start (boundP_cxW .dynamic))).st.isFinished = true →
      ((Sys.serialBound (boundP_cxW .dynamic) : Nat) : Time) < C05_clock boundP_cxEnv (boundP_cxW .dynamic) n) ∧
    (ilSimSteps boundP_cxEnv 273 (SimState.start (boundP_cxW .dynamic))).st.isFinished = true ∧
    C05_clock boundP_cxEnv (boundP_cxW .dynamic) 273 = 43 ∧
    C05_planSerialBound boundP_cxEnv (boundP_cxW .dynamic) = 49 := by
  have N := boundP_cx_nc_dynamic
  obtain ⟨_, g2, g3, _⟩ := boundP_firstFin_spec _ _ _ 0 _ _ boundP_cx_first_dynamic
  refine ⟨⟨N.hw, N.feas, N.hb0, N.hfull, N.hct, N.hh0, N.h1, N.stat, N.topo, N.plan, rfl, rfl⟩, rfl,
    boundP_cx_numbers.1.1, ?_, ?_, g3.symm, boundP_cx_numbers.1.2.1⟩
  · intro n hn
    rw [← simAt_eq_ilSimSteps] at hn
    have h1 := boundP_cx_exceeds_dynamic n hn
    rw [boundP_cx_numbers.1.1]
    show ((10 : Nat) : Time) < boundClock _ _ n
    have h2 : ((10 : Nat) : Time) < 43 := by decide
    grind
  · rw [← simAt_eq_ilSimSteps]; exact g2

/-- **`C05_bound_plan_counterexample_greedy`.**  The same configuration under
GreedySchedulingFromPlan. -/
theorem C05_bound_plan_counterexample_greedy :
    C05_bound_plan_hyps boundP_cxEnv (boundP_cxW .greedy) ∧ (boundP_cxW .greedy).alg = .greedy ∧
    Sys.serialBound (boundP_cxW .greedy) = 10 ∧
    (∀ n, (ilSimSteps boundP_cxEnv n (SimState.start (boundP_cxW .greedy))).st.isFinished = true →
      ((Sys.serialBound (boundP_cxW .greedy) : Nat) : Time) < C05_clock boundP_cxEnv (boundP_cxW .greedy) n) ∧
    (ilSimSteps boundP_cxEnv 273 (SimState.start (boundP_cxW .greedy))).st.isFinished = true ∧
    C05_clock boundP_cxEnv (boundP_cxW .greedy) 273 = 43 ∧
    C05_planSerialBound boundP_cxEnv (boundP_cxW .greedy) = 49 := by
  have N := boundP_cx_nc_greedy
  obtain ⟨_, g2, g3, _⟩ := boundP_firstFin_spec _ _ _ 0 _ _ boundP_cx_first_greedy
  refine ⟨⟨N.hw, N.feas, N.hb0, N.hfull, N.hct, N.hh0, N.h1, N.stat, N.topo, N.plan, rfl, rfl⟩, rfl,
    boundP_cx_numbers.2.1, ?_, ?_, g3.symm, boundP_cx_numbers.2.2.1⟩
  · intro n hn
    rw [← simAt_eq_ilSimSteps] at hn
    have h1 := boundP_cx_exceeds_greedy n hn
    rw [boundP_cx_numbers.2.1]
    show ((10 : Nat) : Time) < boundClock _ _ n
    have h2 : ((10 : Nat) : Time) < 43 := by decide
    grind
  · rw [← simAt_eq_ilSimSteps]; exact g2

/-- **The numeric clause as stated is false for DynamicSchedulingFromPlan.** -/
theorem C05_bound_dynamic_statement_false : ¬ C05_bound_dynamic_statement := by
  intro h
  obtain ⟨⟨a1, a2, a3, a4, a5, a6, a7, a8, a9, a10, a11, a12⟩, halg, _, hex, _⟩ :=
    C05_bound_plan_counterexample_dynamic
  obtain ⟨n, h1, _, _, h4⟩ := h _ _ a1 a2 a3 a4 a5 a6 a7 halg a8 a9 a10 a11 a12
  exact absurd h4 (Rat.not_le.mpr (hex n h1))

/-- **The numeric clause as stated is false for GreedySchedulingFromPlan.** -/
theorem C05_bound_greedy_statement_false : ¬ C05_bound_greedy_statement := by
  intro h
  obtain ⟨⟨a1, a2, a3, a4, a5, a6, a7, a8, a9, a10, a11, a12⟩, halg, _, hex, _⟩ :=
    C05_bound_plan_counterexample_greedy
  obtain ⟨n, h1, _, _, h4⟩ := h _ _ a1 a2 a3 a4 a5 a6 a7 halg a8 a9 a10 a11 a12
  exact absurd h4 (Rat.not_le.mpr (hex n h1))

/-! ### (4) the timed stage lemmas (trajectory level; `LivePCfg` = the hypotheses above with "no block
raises", which `C05_no_raise_plan_simpy_noH2` provides) -/

section
variable {env : SimEnv} {s0 : Sys}

/-- **The accounting invariant.**  At every index up to which the run is not at `is_finished()` the
time of the next event is within `latest + V`, `V` the weight of the stages that have happened
(`boundP_V`: admission `duration + 1`, hand-over 1, removal 1, task start `boundP_WAT`). -/
theorem C05_plan_bound_invariant_simpy (C : LivePCfg env s0) (hh0 : s0.halted = false)
    (hd1 : env.delayTable = []) (hd2 : env.delayScript = []) (n : Nat)
    (hnf : ∀ j, j ≤ n → (simAt env s0 j).st.isFinished = false) :
    boundTau env s0 n ≤ ((boundLatest s0 + boundP_V env s0 (simAt env s0 n).st : Nat) : Time) :=
  (boundP_inv_all C (liveKernel_P C hh0) (boundP_parts C (liveKernel_P C hh0) hd1 hd2) n hnf).le

/-- **Timed liveness of the workers.**  Before `is_finished()`, every live worker process — ingest
supervisor, provisioning, ingest stream, allocation process, task body — is due, and so ends, by
`latest + V - 1`: an admission pre-pays `duration + 1`, a task start its occupancy (on the slowest
machine, or as planned when it has no work) + its largest transfer wait + 1.  In particular a machine
a ready task is waiting for — held by a task of another workflow or by an ingest — is released by
then. -/
theorem C05_plan_worker_deadline_simpy (C : LivePCfg env s0) (hh0 : s0.halted = false)
    (hd1 : env.delayTable = []) (hd2 : env.delayScript = []) (n : Nat)
    (hnf : ∀ j, j < n → (simAt env s0 j).st.isFinished = false)
    {q : Proc} (hq : q ∈ (simAt env s0 n).st.procs) (ha : q.alive = true) (hw : q.BoundWorker) :
    q.wake + 1 ≤ ((boundLatest s0 + boundP_V env s0 (simAt env s0 n).st : Nat) : Time) :=
  (boundP_parts C (liveKernel_P C hh0) hd1 hd2).tl n
    (fun j hj => (boundP_inv_all C (liveKernel_P C hh0) (boundP_parts C (liveKernel_P C hh0) hd1 hd2) j
      (fun i hi => hnf i (by omega))).le) q hq ha hw

/-- **The polling loops poll every time unit.**  After a block at time `t`, every live process other
than a task body is due at a whole instant `m ≤ t + 1`. -/
theorem C05_plan_poller_unit_simpy (C : LivePCfg env s0) (hh0 : s0.halted = false) (n : Nat)
    {q : Proc} (hq : q ∈ (simAt env s0 (n + 1)).st.procs) (ha : q.alive = true)
    (hk : q.k.tag ≠ "doWork") :
    ∃ m : Nat, q.wake = ((m : Nat) : Time) ∧ ((m : Nat) : Time) ≤ boundTau env s0 n + 1 :=
  boundP_wake_nat C (liveKernel_P C hh0) n q hq ha hk

/-- **With no worker process alive, every admitted observation is FINISHED.** -/
theorem C05_plan_idle_admitted_finished_simpy (C : LivePCfg env s0) (hh0 : s0.halted = false) (n : Nat)
    (hq : (simAt env s0 n).st.NoWorker) :
    ∀ ob ∈ (simAt env s0 n).st.obs, ob.ast ≠ none → ob.status = .finished :=
  boundP_id_fin C (liveKernel_P C hh0) n hq

/-- **An idle state that is not at `is_finished()` has an enabled poller.** -/
theorem C05_plan_idle_enabled_simpy (C : LivePCfg env s0) (hh0 : s0.halted = false) (n : Nat)
    (hq : (simAt env s0 n).st.NoWorker) (hnf : (simAt env s0 n).st.isFinished = false) :
    ∃ p ∈ (simAt env s0 n).st.procs, (simAt env s0 n).st.BoundEn p :=
  boundP_idle_enabled C (liveKernel_P C hh0) n hq hnf

/-- **… and its next block, if the state is idle then and the latest planned start has passed, makes
a stage happen**: with no worker alive every machine is free, so the planned machine of a ready task
is, and the task is started (or one planned before it on that machine). -/
theorem C05_plan_idle_stage_simpy (C : LivePCfg env s0) (hh0 : s0.halted = false) (n : Nat)
    {e : HEntry} {p : Proc}
    (hpk : (simAt env s0 n).peek = some e) (hpp : (simAt env s0 n).st.proc? e.pid = some p)
    (hen : (simAt env s0 n).st.BoundEn p) (hq : (simAt env s0 n).st.NoWorker)
    (hdue : ((boundLatest s0 : Nat) : Time) ≤ p.wake) :
    boundP_V env s0 (simAt env s0 n).st < boundP_V env s0 (simAt env s0 (n + 1)).st :=
  boundP_enabled_fires C (liveKernel_P C hh0) n hpk hpp hen hq hdue

end

/-! ### the hypotheses are satisfiable: non-vacuity of (1), (2), (3) -/

/-- the hypotheses of `…_partial` (2), those of (1) and (3) among them, hold of configuration
`Sys.plW alg` with the plan `Sys.plEnvOk` (TopsimProofs/LiveP5.lean: two machines, one observation with
the chain workflow `0 → 1` of tasks with work, both planned on machine 1), under either algorithm -/
example : C05_bound_plan_hyps plEnvOk (plW .dynamic) ∧ (plW .dynamic).alg = .dynamic ∧
    C05_PlanDurOk plEnvOk (plW .dynamic) ∧
    C05_bound_plan_hyps plEnvOk (plW .greedy) ∧ (plW .greedy).alg = .greedy ∧
    C05_PlanDurOk plEnvOk (plW .greedy) := by
  have hd : ∀ alg, C05_PlanDurOk plEnvOk (plW alg) := by
    intro alg
    apply C05_PlanDurOk_of_work
    intro o ho n hn
    simp only [plW, List.mem_cons, List.not_mem_nil, or_false] at ho
    subst ho
    revert n hn
    decide
  exact ⟨⟨plW_wf _, plW_feasible_dynamic, ⟨rfl, rfl, rfl, rfl⟩, ⟨rfl, rfl, rfl⟩, rfl, rfl, plW_h1 _, rfl,
      plW_topo _, plW_planOk _, rfl, rfl⟩, rfl, hd _,
    ⟨plW_wf _, plW_feasible_greedy, ⟨rfl, rfl, rfl, rfl⟩, ⟨rfl, rfl, rfl⟩, rfl, rfl, plW_h1 _, rfl,
      plW_topo _, plW_planOk _, rfl, rfl⟩, rfl, hd _⟩

/-- … and of the two-observation configuration `boundP_nvW alg` with the plan `boundP_nvEnv`
(TopsimProofs/BoundP12.lean): two machines of different speeds, two observations with the same planned
start, each with a two-task chain, ALL FOUR tasks planned on the slow machine 0 — the tasks of one
workflow wait for a machine held by the other's, and by the ingests.  Its run is first at
`is_finished()` with the clock at `boundP_nv_clock`, within the sharp bound, within the serial bound. -/
example : (C05_bound_plan_hyps boundP_nvEnv (boundP_nvW .dynamic) ∧ (boundP_nvW .dynamic).alg = .dynamic ∧
      C05_PlanDurOk boundP_nvEnv (boundP_nvW .dynamic)) ∧
    (C05_bound_plan_hyps boundP_nvEnv (boundP_nvW .greedy) ∧ (boundP_nvW .greedy).alg = .greedy ∧
      C05_PlanDurOk boundP_nvEnv (boundP_nvW .greedy)) :=
  ⟨⟨⟨boundP_nv_nc_dynamic.hw, boundP_nv_nc_dynamic.feas, boundP_nv_nc_dynamic.hb0, boundP_nv_nc_dynamic.hfull,
      boundP_nv_nc_dynamic.hct, boundP_nv_nc_dynamic.hh0, boundP_nv_nc_dynamic.h1, boundP_nv_nc_dynamic.stat,
      boundP_nv_nc_dynamic.topo, boundP_nv_nc_dynamic.plan, rfl, rfl⟩, rfl, boundP_nv_durOk _⟩,
   ⟨⟨boundP_nv_nc_greedy.hw, boundP_nv_nc_greedy.feas, boundP_nv_nc_greedy.hb0, boundP_nv_nc_greedy.hfull,
      boundP_nv_nc_greedy.hct, boundP_nv_nc_greedy.hh0, boundP_nv_nc_greedy.h1, boundP_nv_nc_greedy.stat,
      boundP_nv_nc_greedy.topo, boundP_nv_nc_greedy.plan, rfl, rfl⟩, rfl, boundP_nv_durOk _⟩⟩

/-- the runs of the two algorithms on `boundP_nvW` (by evaluation in the kernel): under dynamic the four
tasks run one after the other on machine 0 and the run is first at `is_finished()` after 150 kernel
steps with the clock at 16; under greedy (fallback to machine 1) after 116 steps with the clock at 11;
serial bound 43, sharp bound 31 -/
theorem C05_bound_plan_witness_runs :
    ((ilSimSteps boundP_nvEnv 150 (SimState.start (boundP_nvW .dynamic))).st.isFinished = true ∧
      C05_clock boundP_nvEnv (boundP_nvW .dynamic) 150 = 16 ∧
      Sys.serialBound (boundP_nvW .dynamic) = 43 ∧ C05_planSharpBound boundP_nvEnv (boundP_nvW .dynamic) = 31) ∧
    ((ilSimSteps boundP_nvEnv 116 (SimState.start (boundP_nvW .greedy))).st.isFinished = true ∧
      C05_clock boundP_nvEnv (boundP_nvW .greedy) 116 = 11 ∧
      Sys.serialBound (boundP_nvW .greedy) = 43 ∧ C05_planSharpBound boundP_nvEnv (boundP_nvW .greedy) = 31) := by
  obtain ⟨⟨a1, a2, _⟩, ⟨b1, b2, _⟩⟩ := boundP_nv_runs
  rw [simAt_eq_ilSimSteps] at a1 b1
  exact ⟨⟨a1, a2, boundP_nv_numbers.1.1, boundP_nv_numbers.1.2.2⟩,
    ⟨b1, b2, boundP_nv_numbers.2.1, boundP_nv_numbers.2.2.2⟩⟩

/-- the numbers on these configurations -/
example : Sys.serialBound (plW .dynamic) = 15 ∧ C05_planSerialBound plEnvOk (plW .dynamic) = 15 ∧
    C05_planSharpBound plEnvOk (plW .dynamic) = 9 := by decide

end Topsim
