/-
  Order side conditions of trajectory theorems, discharged for the deterministic
  simulator (L3: SimPy's own (time, priority, insertion id) order).

  The technique (TopsimProofs/SimOrder1.lean): "creation order is kept".  If a
  process `c` creates a process `d` and both only ever yield `timeout(1)`, then in
  every later instant `c` is resumed before `d` — an invariant of the event heap in
  the style of `MonFirst` (`SoPairInv R`), preserved by every kernel step.
-/
import TopsimProps.C08Traj
import TopsimProps.C03Traj
import TopsimProps.C13Traj
import TopsimProofs.SimOrder6

namespace Topsim
namespace Sys

/-! ### C03: precedence, exact, in SimPy's order -/

-- F13: with the repaired release timing the exact clause holds for EVERY block order
-- (`C03_precedence_any_order`, TopsimProps/C03Traj.lean); the order condition `pollAfterSched` and its
-- discharge for the simulator below are kept (they are still true) but are no longer needed for it.

/-- The runs of the simulator are `ReachSchedFirst` runs of the block system (up to the `halted`
flag): inside an instant the `allocate_tasks` process of an observation is resumed before the
allocation processes it created, so the block in which an allocation process reports its task
finished comes after that instant's `allocate_tasks` block (`pollAfterSched`). -/
theorem L3_refines_ReachSchedFirst (env : SimEnv) (s0 : Sys) (hw : WFConfig s0)
    (hb0 : s0.buf.hot.stored = [] ∧ s0.buf.hot.scheduled = [] ∧ s0.buf.hot.finished = [] ∧
      s0.buf.cold.stored = [])
    (k : SimState) (h : SimRun env s0 k) :
    ∃ s, ReachSchedFirst s0 s ∧ (k.st = s ∨ (k.st = { s with halted := true } ∧ k.st.halted = true)) :=
  (l3_refines_schedFirst env s0 hw (hb0_bufList hb0) k h).2

/-- C03 (1), exact, along the simulator's runs: for every plan, every edge `q → t` of its graph
and every started record of `t`, the cluster reports `q` finished, the record of `q` is FINISHED
and its recorded finish is not later than the recorded start of `t`. -/
-- Hypotheses as in `C03_precedence`: a shipped algorithm (`ha`), an initially empty buffer
-- (`hb0`), no block has raised (`hc`).  Nothing is assumed about `env` (delay table, delay
-- script, static plans).
theorem C03_precedence_simpy (env : SimEnv) (s0 : Sys) (hw : WFConfig s0) (ha : s0.alg ≠ .oracle)
    (hb0 : s0.buf.hot.stored = [] ∧ s0.buf.hot.scheduled = [] ∧ s0.buf.hot.finished = [] ∧
      s0.buf.cold.stored = [])
    (k : SimState) (h : SimRun env s0 k) (hc : k.st.crashed = none) :
    ∀ pl ∈ k.st.plans, ∀ q t, (q, t) ∈ pl.edges → ∀ r a, k.st.task? t = some r → r.ast = some a →
      k.st.cl.isTaskFinished q = true ∧
      ∃ rq f, k.st.task? q = some rq ∧ rq.status = .finished ∧ rq.aft = some f ∧ f ≤ a := by
  obtain ⟨s, hrs, hks | ⟨hks, _⟩⟩ := L3_refines_ReachSchedFirst env s0 hw hb0 k h
  · rw [hks] at hc ⊢
    exact C03_precedence s0 s hw ha hb0 hrs hc
  · rw [hks] at hc ⊢
    exact C03_precedence s0 s hw ha hb0 hrs hc

/-- … with the predecessors read off `Plan.preds` (what the algorithms test) -/
theorem C03_precedence_preds_simpy (env : SimEnv) (s0 : Sys) (hw : WFConfig s0) (ha : s0.alg ≠ .oracle)
    (hb0 : s0.buf.hot.stored = [] ∧ s0.buf.hot.scheduled = [] ∧ s0.buf.hot.finished = [] ∧
      s0.buf.cold.stored = [])
    (k : SimState) (h : SimRun env s0 k) (hc : k.st.crashed = none) :
    ∀ pl ∈ k.st.plans, ∀ t r a, k.st.task? t = some r → r.ast = some a → ∀ q ∈ pl.preds t,
      k.st.cl.isTaskFinished q = true ∧
      ∃ rq f, k.st.task? q = some rq ∧ rq.status = .finished ∧ rq.aft = some f ∧ f ≤ a :=
  fun pl hpl t r a hr hast q hq =>
    C03_precedence_simpy env s0 hw ha hb0 k h hc pl hpl q t (planPreds_mem hq) r a hr hast

/-- the order fact itself: when the kernel is about to resume a scheduler-side allocation
process, every live `allocate_tasks` process of its observation has already run at this instant -/
theorem C03_alloc_after_sched_simpy (env : SimEnv) (s0 : Sys) (hw : WFConfig s0)
    (hb0 : s0.buf.hot.stored = [] ∧ s0.buf.hot.scheduled = [] ∧ s0.buf.hot.finished = [] ∧
      s0.buf.cold.stored = [])
    (k : SimState) (h : SimRun env s0 k) (e : HEntry) (hpk : k.peek = some e) (p : Proc)
    (hp : k.st.proc? e.pid = some p) (ha : p.alive = true) (t : Tid) (m : Mid) (cross : List Tid)
    (o : Oid) (ret : Nat) (hk : p.k = .allocTask t m cross (some o) false ret)
    (q : Proc) (hq : q ∈ k.st.procs) (hqa : q.alive = true) (sc pa : List (Tid × Mid)) (po : List Tid)
    (fn : Bool) (hqk : q.k = .allocTasks o sc pa po fn) : p.wake + 1 = q.wake := by
  obtain ⟨hinv, _⟩ := l3_refines_schedFirst env s0 hw (hb0_bufList hb0) k h
  obtain ⟨_, hho⟩ := h.toReach.inv hw
  exact hinv.popped hho hpk hq (proc?_some hp).1 hqa ha ⟨o, sc, pa, po, fn, t, m, cross, ret, hqk, hk⟩
    (proc?_some hp).2.symm

/-! ### C13: nothing that is emitted is lost, in SimPy's order -/

/-- Every run of the simulator has a trace: `SimRunEv env s0 k evs` is `SimRun env s0 k` together
with the list `evs` of the events emitted by the blocks, in order (`SimReachEv`: the same for
`SimReach`, pause hand-overs and steps after a raised exception included). -/
theorem C13_simRun_trace_exists (env : SimEnv) (s0 : Sys) (k : SimState) (h : SimRun env s0 k) :
    ∃ evs, SimRunEv env s0 k evs := h.toEv
theorem C13_simRun_trace_run (env : SimEnv) (s0 : Sys) (k : SimState) (evs : List Event)
    (h : SimRunEv env s0 k evs) : SimRun env s0 k := h.toRun
theorem C13_simReach_trace_exists (env : SimEnv) (s0 : Sys) (k : SimState) (h : SimReach env s0 k) :
    ∃ evs, SimReachEv env s0 k evs := h.toEv
theorem C13_simReach_trace_reach (env : SimEnv) (s0 : Sys) (k : SimState) (evs : List Event)
    (h : SimReachEv env s0 k evs) : SimReach env s0 k := h.toReach
theorem C13_simRun_trace_simReach (env : SimEnv) (s0 : Sys) (k : SimState) (evs : List Event)
    (h : SimRunEv env s0 k evs) : SimReachEv env s0 k evs := h.toReachEv

/-- The traced runs of the simulator are traced runs of the block system, with the same trace (up
to the `halted` flag): everything proved about `ReachEvOk` traces holds for the simulator's. -/
theorem L3_refines_ReachEvOk (env : SimEnv) (s0 : Sys) (hw : WFConfig s0) (k : SimState)
    (evs : List Event) (h : SimRunEv env s0 k evs) :
    ∃ s, ReachEvOk s0 s evs ∧ (k.st = s ∨ (k.st = { s with halted := true } ∧ k.st.halted = true)) :=
  l3_refines_reachEv env s0 hw k evs h

/-- C13, completeness, in SimPy's order: along every run of the simulator — kernel steps, pause
hand-overs, steps after a raised exception — every event a block has emitted is in the log or in
one of the three pending lists.  (`C13_log_complete_statement` with `ReachEvOk` replaced by the
simulator's runs; false for arbitrary block orders, `C13_log_complete_statement_false`.) -/
-- Hypothesis: a well-formed initial configuration only.  Nothing is assumed about `env`, the
-- algorithm, the buffer or exceptions.
theorem C13_log_complete_simpy (env : SimEnv) (s0 : Sys) (hw : WFConfig s0) (k : SimState)
    (evs : List Event) (h : SimReachEv env s0 k evs) :
    ∀ e ∈ evs, e ∈ k.st.log ++ k.st.telEvents ++ k.st.schEvents ++ k.st.bufEvents :=
  sim_log_complete env s0 hw k evs h

/-- … in particular along one uninterrupted `env.run(...)` -/
theorem C13_log_complete_simRun (env : SimEnv) (s0 : Sys) (hw : WFConfig s0) (k : SimState)
    (evs : List Event) (h : SimRunEv env s0 k evs) :
    ∀ e ∈ evs, e ∈ k.st.log ++ k.st.telEvents ++ k.st.schEvents ++ k.st.bufEvents :=
  sim_log_complete env s0 hw k evs h.toReachEv

/-- Why: when the kernel is about to resume the telescope (the scheduler loop), which starts its
block by emptying its pending list, that list is empty — the monitor, resumed first at every
instant, has already moved it to the log. -/
theorem C13_clear_after_collate_simpy (env : SimEnv) (s0 : Sys) (hw : WFConfig s0) (k : SimState)
    (evs : List Event) (h : SimReachEv env s0 k evs) (e : HEntry) (hpk : k.peek = some e) (p : Proc)
    (hpp : k.st.proc? e.pid = some p) (ha : p.alive = true) :
    (p.k = .telescope → k.st.telEvents = []) ∧ (p.k = .schedLoop → k.st.schEvents = []) :=
  sim_clear_after_collate env s0 hw k evs h e hpk p hpp ha

/-- … and an `allocate_tasks` process, the only other process that appends to the scheduler's
pending list, is resumed after the scheduler loop of the instant (the loop started it): its
events are appended after the list was emptied, and the monitor collects them at the next instant
before the list is emptied again. -/
theorem C13_allocTasks_after_schedLoop_simpy (env : SimEnv) (s0 : Sys) (hw : WFConfig s0)
    (k : SimState) (evs : List Event) (h : SimReachEv env s0 k evs) (e : HEntry)
    (hpk : k.peek = some e) (p : Proc) (hpp : k.st.proc? e.pid = some p) (ha : p.alive = true)
    (o : Oid) (sc pa : List (Tid × Mid)) (po : List Tid) (fn : Bool)
    (hk : p.k = .allocTasks o sc pa po fn) (c : Proc) (hc : c ∈ k.st.procs) (hca : c.alive = true)
    (hck : c.k = .schedLoop) : p.wake + 1 = c.wake :=
  sim_allocTasks_after_schedLoop env s0 hw k evs h e hpk p hpp ha o sc pa po fn hk c hc hca hck

/-- C13, "exactly the emitted events, each once": along one `env.run(...)`, for every observation
and every life-cycle kind (everything but the tier-transfer events), the log and the pending lists
together hold exactly as many events of that observation and kind as were emitted, and that is at
most one. -/
-- Hypotheses: `hb0` (initially empty buffer) is what `C13_emitted_once` needs; completeness needs
-- nothing.
theorem C13_exactly_the_emitted_simpy (env : SimEnv) (s0 : Sys) (hw : WFConfig s0)
    (hb0 : s0.buf.hot.stored = [] ∧ s0.buf.hot.scheduled = [] ∧ s0.buf.hot.finished = [] ∧
      s0.buf.cold.stored = [])
    (k : SimState) (evs : List Event) (h : SimRunEv env s0 k evs) (o : Oid) (kd : EvKind)
    (hk : kd ≠ .transferStarted ∧ kd ≠ .transferStopped) :
    ((k.st.log ++ k.st.telEvents ++ k.st.schEvents ++ k.st.bufEvents).filter
      (fun e => decide (e.obs = o ∧ e.kind = kd))).length =
      (evs.filter (fun e => decide (e.obs = o ∧ e.kind = kd))).length ∧
    (evs.filter (fun e => decide (e.obs = o ∧ e.kind = kd))).length ≤ 1 := by
  obtain ⟨s, hrs, hks⟩ := l3_refines_reachEv env s0 hw k evs h
  have hall : k.st.log ++ k.st.telEvents ++ k.st.schEvents ++ k.st.bufEvents = lcAll s := by
    rcases hks with hks | ⟨hks, _⟩ <;> rw [hks] <;> rfl
  have h1 := C13_emitted_once s0 s evs hw hb0 hrs o kd hk
  have h2 := reachEv_logSub hw hrs.toEv o kd
  have hcomp := sim_log_complete env s0 hw k evs h.toReachEv
  have hall' : lcAll k.st = lcAll s := hall
  rw [hall]
  rw [← evCount_eq_filter] at h1
  rw [← evCount_eq_filter, ← evCount_eq_filter]
  refine ⟨?_, h1⟩
  cases hc : evCount o kd evs with
  | zero => rw [hc] at h2; omega
  | succ n =>
    obtain ⟨e, he, heo⟩ := (evCount_pos_iff o kd evs).mp (by omega)
    have hin : e ∈ lcAll s := by rw [← hall']; exact hcomp e he
    have := (evCount_pos_iff o kd (lcAll s)).mpr ⟨e, hin, heo⟩
    omega

/-! ### C13: liveness at `is_finished()` -/

/-- Whatever the order of the blocks: at `is_finished()` of a run in which no block raised, the
trace holds, for every observation, an event of each of the eight life-cycle kinds (telescope
started / finished, buffer added / removed, queue added / removed, allocation started / stopped).
(The transitions that `is_finished()` and `C04` require can only have happened in blocks that
emit: FINISHED is set with `telFinished`; the hot buffer's `finished` list grows with
`allocStopped`, which comes after `allocStarted`, `queueAdded`, `telStarted` and with `bufRemoved`,
and — unless the block raises — with `queueRemoved`; the stream of a FINISHED observation has run,
and its first block emits `bufAdded` or raises.) -/
-- Hypotheses: those of `C04_all_workflow_tasks_ran` (initially empty buffer `hb0`, its sizes
-- `hsz0`, positive ingest rates `hrate`), which is what forces every observation through the hot
-- buffer's `finished` list.
theorem C13_all_kinds_at_finish (s0 s : Sys) (evs : List Event) (hw : WFConfig s0)
    (hb0 : s0.buf.hot.stored = [] ∧ s0.buf.hot.scheduled = [] ∧ s0.buf.hot.finished = [] ∧
      s0.buf.cold.stored = [])
    (hsz0 : s0.buf.size = [] ∧ s0.buf.hot.cur ≤ s0.buf.hot.total ∧ s0.buf.cold.cur ≤ s0.buf.cold.total)
    (hrate : ∀ o ∈ s0.obs, 0 < o.rate)
    (h : ReachEvOk s0 s evs) (hf : s.isFinished = true) (hc : s.crashed = none) :
    ∀ ob ∈ s.obs, ∀ k : EvKind, k ≠ .transferStarted → k ≠ .transferStopped →
      ∃ e ∈ evs, e.obs = ob.id ∧ e.kind = k :=
  finished_all_kinds s0 s evs hw (hb0_bufList hb0) hsz0 hrate h hf hc

/-- C13, "exactly one", in SimPy's order: at `is_finished()` of an `env.run(...)` in which no
block raised, for every observation and every one of the eight life-cycle kinds, exactly one event
of that observation and kind was emitted, and the log together with the pending lists holds
exactly one.  (Liveness `C13_all_kinds_at_finish`, at most once `C13_emitted_once`, nothing lost
`C13_log_complete_simpy`.) -/
theorem C13_exactly_one_at_finish_simpy (env : SimEnv) (s0 : Sys) (hw : WFConfig s0)
    (hb0 : s0.buf.hot.stored = [] ∧ s0.buf.hot.scheduled = [] ∧ s0.buf.hot.finished = [] ∧
      s0.buf.cold.stored = [])
    (hsz0 : s0.buf.size = [] ∧ s0.buf.hot.cur ≤ s0.buf.hot.total ∧ s0.buf.cold.cur ≤ s0.buf.cold.total)
    (hrate : ∀ o ∈ s0.obs, 0 < o.rate)
    (k : SimState) (evs : List Event) (h : SimRunEv env s0 k evs) (hf : k.st.isFinished = true)
    (hc : k.st.crashed = none) :
    ∀ ob ∈ k.st.obs, ∀ kd : EvKind, kd ≠ .transferStarted → kd ≠ .transferStopped →
      (evs.filter (fun e => decide (e.obs = ob.id ∧ e.kind = kd))).length = 1 ∧
      ((k.st.log ++ k.st.telEvents ++ k.st.schEvents ++ k.st.bufEvents).filter
        (fun e => decide (e.obs = ob.id ∧ e.kind = kd))).length = 1 := by
  intro ob hob kd hk1 hk2
  obtain ⟨h1, h2⟩ := C13_exactly_the_emitted_simpy env s0 hw hb0 k evs h ob.id kd ⟨hk1, hk2⟩
  obtain ⟨s, hrs, hks⟩ := l3_refines_reachEv env s0 hw k evs h
  have hex : ∃ e ∈ evs, e.obs = ob.id ∧ e.kind = kd := by
    rcases hks with hks | ⟨hks, _⟩
    · rw [hks] at hf hc hob
      exact C13_all_kinds_at_finish s0 s evs hw hb0 hsz0 hrate hrs hf hc ob hob kd hk1 hk2
    · rw [hks] at hf hc hob
      exact C13_all_kinds_at_finish s0 s evs hw hb0 hsz0 hrate hrs hf hc ob hob kd hk1 hk2
  have hpos := (evCount_pos_iff ob.id kd evs).mpr hex
  rw [evCount_eq_filter] at hpos
  omega

/-- The hypotheses of `C13_exactly_one_at_finish_simpy` are satisfiable: configuration `soW0` (one
observation with ingest rate 1, one array, one ingest machine, one timestep, empty workflow, queue
algorithm, empty buffer), default environment; after 20 kernel steps (two instants) the run is at
`is_finished()`, nothing was raised, and the trace is the whole life cycle of observation 0, each
event once, in causal order. -/
theorem C13_exactly_one_at_finish_simpy_witness :
    ∃ (env : SimEnv) (s0 : Sys) (k : SimState) (evs : List Event), WFConfig s0 ∧
      (s0.buf.hot.stored = [] ∧ s0.buf.hot.scheduled = [] ∧ s0.buf.hot.finished = [] ∧
        s0.buf.cold.stored = []) ∧
      (s0.buf.size = [] ∧ s0.buf.hot.cur ≤ s0.buf.hot.total ∧ s0.buf.cold.cur ≤ s0.buf.cold.total) ∧
      (∀ o ∈ s0.obs, 0 < o.rate) ∧ SimRunEv env s0 k evs ∧ k.st.isFinished = true ∧
      k.st.crashed = none ∧ k.st.obs.map (·.id) = [0] ∧
      evs = [⟨0, 0, .telStarted⟩, ⟨0, 0, .bufAdded⟩, ⟨1, 0, .telFinished⟩, ⟨1, 0, .queueAdded⟩,
        ⟨1, 0, .allocStarted⟩, ⟨1, 0, .allocStopped⟩, ⟨1, 0, .queueRemoved⟩, ⟨1, 0, .bufRemoved⟩] :=
  ⟨{}, soW0, soK20.1, soK20.2, soW0_wf, soW0_buf, soW0_size, soW0_rate, soK20_run, soK20_facts.1,
    soK20_facts.2.1, soK20_facts.2.2.1, soK20_facts.2.2.2⟩

/-- … and one kernel step later (the monitor's block of the next instant) the log holds exactly
these eight events. -/
theorem C13_exactly_one_at_finish_simpy_witness_log :
    ∃ (k : SimState) (evs : List Event), SimRunEv {} soW0 k evs ∧ k.st.isFinished = true ∧
      k.st.crashed = none ∧ k.st.log = evs ∧ evs.length = 8 := by
  refine ⟨soK21.1, soK21.2, soK21_run, soK21_facts.1, soK21_facts.2.1, ?_, ?_⟩
  · rw [soK21_facts.2.2.2, soK21_facts.2.2.1, soK20_facts.2.2.2]
  · rw [soK21_facts.2.2.1, soK20_facts.2.2.2]; rfl

end Sys
end Topsim
