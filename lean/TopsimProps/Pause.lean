/-
  Pause transparency (C11) and "the row is taken at the beginning of the step"
  (C12) for the concrete simulator `SimState = KState Sys` with handler
  `simHandler env`.

  Vocabulary (TopsimProofs/MonitorFirst.lean, TopsimProofs/PauseLemmas.lean):
  * `s.isDW pid`  — process `pid` of `s` is a `do_work` body;
  * `MonFirst k`  — the kernel invariant "the monitor comes first";
  * `Bdy k`       — `k` is at a step boundary (a pause point): the monitor is
                    alive and its heap entry precedes every other entry whose
                    process is not a `do_work` body;
  * `PauseEq a b` — `a.st.collate = b.st.collate ∧ a.heap = b.heap ∧ a.eid = b.eid`.
-/
import TopsimProofs.KernelLemmas
import TopsimProofs.MonitorFirst
import TopsimProofs.PauseLemmas
import TopsimProofs.PauseBoundary

namespace Topsim

open KState

/-! ### C11 -/

/-- C11: the extra hand-over (`Sys.collate`) performed at a pause point is
invisible.  Run until any `v` from the collated state and from the original
state: same heap, same event counter, same state up to a hand-over. -/
theorem C11_pause_transparent (env : SimEnv) (k : SimState) (hb : Bdy k) (v : Time)
    (k1 k2 : SimState)
    (h1 : RunsTo (simHandler env) v { k with st := k.st.collate } k1)
    (h2 : RunsTo (simHandler env) v k k2) :
    k1.st.collate = k2.st.collate ∧ k1.heap = k2.heap ∧ k1.eid = k2.eid :=
  pause_runsTo_eq env v k k1 k2 hb h1 h2

/-- … more precisely: the two runs end in the *same* state (the monitor has been
resumed in between and absorbed the hand-over), or the second is still exactly
one hand-over behind (only `do_work` events were processed). -/
theorem C11_pause_transparent' (env : SimEnv) (k : SimState) (hb : Bdy k) (v : Time)
    (k1 k2 : SimState)
    (h1 : RunsTo (simHandler env) v { k with st := k.st.collate } k1)
    (h2 : RunsTo (simHandler env) v k k2) :
    k1 = k2 ∨ (k1.heap = k2.heap ∧ k1.eid = k2.eid ∧ k1.st = k2.st.collate) :=
  pause_runsTo env v _ k k1 k2 hb (PauseRel.of_collate k) h1 h2

/-- the boundary predicate in terms of `MonFirst` and event times: every
pending event is at or after `u`, and the monitor's wake-up is not after `u` -/
theorem C11_boundary_of_times (k : SimState) (inv : MonFirst k) (u : Time)
    (hall : ∀ x ∈ k.heap, u ≤ x.time) (hmon : ∀ x ∈ k.heap, x.pid = 0 → x.time ≤ u) : Bdy k :=
  Bdy.of_monFirst k inv u hall hmon

/-- C11 in the suggested form: `MonFirst`, all events at or after `u`, the
monitor's at `u` -/
theorem C11_pause_transparent_at (env : SimEnv) (k : SimState) (inv : MonFirst k) (u v : Time)
    (hall : ∀ x ∈ k.heap, u ≤ x.time) (hmon : ∀ x ∈ k.heap, x.pid = 0 → x.time = u)
    (k1 k2 : SimState)
    (h1 : RunsTo (simHandler env) v { k with st := k.st.collate } k1)
    (h2 : RunsTo (simHandler env) v k k2) :
    k1.st.collate = k2.st.collate ∧ k1.heap = k2.heap ∧ k1.eid = k2.eid :=
  C11_pause_transparent env k
    (Bdy.of_monFirst k inv u hall (fun x hx h0 => by rw [hmon x hx h0]; exact Rat.le_refl))
    v k1 k2 h1 h2

/-- C11 for the executable, fuel-bounded loop (which also stops when the
exception has left `env.run`): `resume(until=v)` from the collated state and
from the original state agree up to a hand-over, and are literally equal unless
the run halted before the monitor ran again. -/
theorem C11_resumeUntil (env : SimEnv) (k : SimState) (hb : Bdy k) (v fuel : Nat) :
    ((SimState.resumeUntil env { k with st := k.st.collate } v fuel).st.collate =
        (SimState.resumeUntil env k v fuel).st.collate ∧
      (SimState.resumeUntil env { k with st := k.st.collate } v fuel).heap =
        (SimState.resumeUntil env k v fuel).heap ∧
      (SimState.resumeUntil env { k with st := k.st.collate } v fuel).eid =
        (SimState.resumeUntil env k v fuel).eid) ∧
    ((SimState.resumeUntil env k v fuel).st.halted = false →
      SimState.resumeUntil env { k with st := k.st.collate } v fuel =
        SimState.resumeUntil env k v fuel) :=
  pause_resumeUntil env k hb v fuel

/-- the same for the raw loop `SimState.runUntil` -/
theorem C11_runUntil (env : SimEnv) (k : SimState) (hb : Bdy k) (v : Time) (fuel : Nat) :
    (SimState.runUntil env v fuel { k with st := k.st.collate }).st.collate =
        (SimState.runUntil env v fuel k).st.collate ∧
    (SimState.runUntil env v fuel { k with st := k.st.collate }).heap =
        (SimState.runUntil env v fuel k).heap ∧
    (SimState.runUntil env v fuel { k with st := k.st.collate }).eid =
        (SimState.runUntil env v fuel k).eid := by
  rcases pause_runUntil env v fuel _ k hb (PauseRel.of_collate k) with h | h
  · exact PauseEq.of_eq h
  · exact PauseEq.of_rel h

/-- pause points are step boundaries: the state in which `run(until=u)`, `u` a
whole number, returns (from the start of a simulation) satisfies `Bdy` -/
theorem C11_pause_point_is_boundary (env : SimEnv) (s : Sys) (h1 : s.procs = [])
    (h2 : s.nextPid = 0) (u : Nat) (ku : SimState)
    (hr : RunsTo (simHandler env) (u : Time) (SimState.start s) ku) : Bdy ku :=
  Bdy.of_runsTo env s h1 h2 u ku hr

/-- C11 end to end: `start(runtime=u)`, hand-over, `resume(until=v)` against
the uninterrupted `start(runtime=v)`: same heap, same event counter, same state
up to a hand-over (which `start`/`resume` perform on return anyway) -/
theorem C11_end_to_end (env : SimEnv) (s : Sys) (h1 : s.procs = []) (h2 : s.nextPid = 0)
    (u : Nat) (v : Time) (huv : (u : Time) ≤ v) (ku k1 k2 : SimState)
    (hu : RunsTo (simHandler env) (u : Time) (SimState.start s) ku)
    (hr : RunsTo (simHandler env) v { ku with st := ku.st.collate } k1)
    (hd : RunsTo (simHandler env) v (SimState.start s) k2) :
    k1.st.collate = k2.st.collate ∧ k1.heap = k2.heap ∧ k1.eid = k2.eid :=
  pause_end_to_end env s h1 h2 u v huv ku k1 k2 hu hr hd

/-- C11 for the executable API: `resumeUntil v` after `startUntil u` (which
hands over at the pause) against `resumeUntil v` from the very state in which
the first run stopped — provided that run stopped because nothing before `u`
was left (enough fuel, no exception) -/
theorem C11_startUntil_resumeUntil (env : SimEnv) (s : Sys) (h1 : s.procs = [])
    (h2 : s.nextPid = 0) (u v fuel fuel' : Nat)
    (hstop : ∀ e, (SimState.runUntil env (u : Time) fuel (SimState.start s)).peek = some e →
      (u : Time) ≤ e.time) :
    ((SimState.resumeUntil env (SimState.startUntil env s u fuel) v fuel').st.collate =
        (SimState.resumeUntil env (SimState.runUntil env (u : Time) fuel (SimState.start s))
          v fuel').st.collate ∧
      (SimState.resumeUntil env (SimState.startUntil env s u fuel) v fuel').heap =
        (SimState.resumeUntil env (SimState.runUntil env (u : Time) fuel (SimState.start s))
          v fuel').heap ∧
      (SimState.resumeUntil env (SimState.startUntil env s u fuel) v fuel').eid =
        (SimState.resumeUntil env (SimState.runUntil env (u : Time) fuel (SimState.start s))
          v fuel').eid) ∧
    ((SimState.resumeUntil env (SimState.runUntil env (u : Time) fuel (SimState.start s))
        v fuel').st.halted = false →
      SimState.resumeUntil env (SimState.startUntil env s u fuel) v fuel' =
        SimState.resumeUntil env (SimState.runUntil env (u : Time) fuel (SimState.start s))
          v fuel') :=
  pause_startUntil_resumeUntil env s h1 h2 u v fuel fuel' hstop

/-- non-vacuity: the initial state of every simulation is a step boundary -/
example (s : Sys) (h1 : s.procs = []) (h2 : s.nextPid = 0) : Bdy (SimState.start s) :=
  Bdy.start s h1 h2

example : (default : Sys).procs = [] ∧ (default : Sys).nextPid = 0 := ⟨rfl, rfl⟩

/-! ### C12 -/

/-- C12: a `do_work` block — the only kind of block that can precede the
monitor within an instant — does not change the row the monitor would write -/
theorem C12_row_ignores_doWork (s : Sys) (pid : Nat) (orc : Oracle) (p : Proc)
    (hp : s.proc? pid = some p) (hk : p.k.isDoWork = true) (n : Nat) :
    (s.resume pid orc).1.mkRow n = s.mkRow n :=
  Sys.resume_dw_mkRow s pid orc p hp hk n

/-- the same through the kernel's handler (which may also find the process
dead and halt) -/
theorem C12_handler_ignores_doWork (env : SimEnv) (s : Sys) (pid : Nat) (now : Time)
    (h : s.isDW pid) (n : Nat) : (simHandler env s pid now).1.mkRow n = s.mkRow n :=
  simHandler_dw_mkRow env s pid now h n

/-- C12: the row is the state at the beginning of the step.  Under `MonFirst`
there is an entry `m` of the monitor such that every kernel step that pops
another entry `e` at the monitor's own instant leaves the row unchanged. -/
theorem C12_begin_of_step (env : SimEnv) (k : SimState) (inv : MonFirst k) :
    ∃ m ∈ k.heap, m.pid = 0 ∧ ∀ e k', k.peek = some e → k.step (simHandler env) = some k' →
      e ≠ m → e.time = m.time → ∀ n, k'.st.mkRow n = k.st.mkRow n :=
  MonFirst.step_mkRow env k inv

/-- at a step boundary no time condition is needed: every step before the
monitor's leaves the row unchanged, and the next state is again a boundary -/
theorem C12_before_monitor (env : SimEnv) (k : SimState) (hb : Bdy k) :
    ∃ m ∈ k.heap, m.pid = 0 ∧ ∀ e k', k.peek = some e → k.step (simHandler env) = some k' →
      e ≠ m → ∀ n, k'.st.mkRow n = k.st.mkRow n := by
  obtain ⟨_, m, hm, hmpid, hfirst⟩ := hb
  exact ⟨m, hm, hmpid, fun e k' hp hs hem n =>
    Bdy.step_mkRow env k k' m e hm hfirst hp hs hem n⟩

/-- non-vacuity: `do_work` processes exist -/
example : ({ (default : Sys) with
    procs := [{ pid := 7, k := .doWork (.raw 0) 0 [] 0 0 }] } : Sys).isDW 7 :=
  ⟨_, rfl, rfl⟩

end Topsim
