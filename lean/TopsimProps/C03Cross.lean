/-
  C03, second clause, exact form on trajectories — what was left open after
  `C03_recorded_start` (TopsimProps/C03Traj.lean):

  (i)  the list `cross` handed to the body `doWork t m cross …` of a workflow task is
       EXACTLY the set of predecessors of `t` (the `pred` list of its record) whose
       body ran on a machine other than `m` (`C03_cross_exact_traj`).  The machine a
       task ran on is read off the process table (`Sys.crossRanOn`: the machine of its one
       `doWork` process; the table keeps ended processes).  The table from which the
       scheduler computes the list — the local `allocations` table (`pairs`) of the
       `allocate_tasks` process, `crossPreds pairs preds m` in `processOne`,
       TopsimModel/Procs.lean — is TRUE: along every trajectory it maps every workflow
       task that has a body to the machine of that body, and the machine of every such
       body is in a table (`C03_alloc_table_true_traj`).

  (ii) the `alloc` of `C03_recorded_start` is the time of the allocation block: the
       block of `allocate_task_to_cluster(t, m)` in which the cluster accepts the task
       and the body process is created (`C03_recorded_start_exact_traj`).  The state
       keeps no record of that time, so the statement is over a trajectory segment:
       every started body of a workflow task was created by such a block, run by an
       enabled process `p` in a reachable state `s1`; the body is due at the same
       instant `p.wake`; and in every later state of the run
       `ast = startTime p.wake bw arrivals`.

  Hypotheses as in C03Traj: a shipped algorithm, the initial buffer lists empty, the run
  has not crashed.  All statements hold for EVERY order of the blocks inside an instant
  (`Reach`); the `…_simpy` corollaries are for the states of the simulator's runs.
-/
import TopsimProofs.Cross7
import TopsimProps.C03Traj
import TopsimProps.C08Traj

namespace Topsim
namespace Sys

/-! ### (i) the cross-machine list, exactly -/

/-- The allocation table is true.  For the body `doWork x mx …` of a workflow task (live or ended):
`mx` is THE machine `x` ran on (`crossRanOn`; a task has one body), some `allocate_tasks` process records
`x ↦ mx` in its table, and no table of any `allocate_tasks` process records another machine. -/
theorem C03_alloc_table_true_traj (s0 s : Sys) (hw : WFConfig s0) (ha : s0.alg ≠ .oracle)
    (hb0 : s0.buf.hot.stored = [] ∧ s0.buf.hot.scheduled = [] ∧ s0.buf.hot.finished = [] ∧
      s0.buf.cold.stored = [])
    (h : Reach s0 s) (hc : s.crashed = none) :
    ∀ d ∈ s.procs, ∀ x mx c ph tot, d.k = .doWork x mx c ph tot → IsWf x →
      s.crossRanOn x = some mx ∧
      (∃ P ∈ s.procs, ∃ o sc pa po fn, P.k = .allocTasks o sc pa po fn ∧ dictGet pa x = some mx) ∧
      (∀ P ∈ s.procs, ∀ o sc pa po fn, P.k = .allocTasks o sc pa po fn →
        ∀ m', dictGet pa x = some m' → m' = mx) := by
  intro d hd x mx c ph tot hdk hwf
  have hcx := cross_reach_cx s0 s hw (hb0_bufList hb0) ha h hc
  have hs := reach_inv s0 s hw (h.toOk ha)
  exact ⟨(cross_ranOn_iff hs x mx).mpr ⟨d, hd, c, ph, tot, hdk⟩,
    hcx.dwTab d hd x mx c ph tot hdk hwf,
    fun P hP o sc pa po fn hPk m' hg => hcx.paDW P hP o sc pa po fn hPk d hd x mx c ph tot hdk hwf m' hg⟩

/-- … and the same for a scheduler-side allocation process `allocate_task_to_cluster(x, mx)`: the
table of the `allocate_tasks` process of its observation records `x ↦ mx`, no table disagrees. -/
theorem C03_alloc_table_alloc_traj (s0 s : Sys) (hw : WFConfig s0) (ha : s0.alg ≠ .oracle)
    (hb0 : s0.buf.hot.stored = [] ∧ s0.buf.hot.scheduled = [] ∧ s0.buf.hot.finished = [] ∧
      s0.buf.cold.stored = [])
    (h : Reach s0 s) (hc : s.crashed = none) :
    ∀ q ∈ s.procs, ∀ x mx c ob ret, q.k = .allocTask x mx c ob false ret →
      (∃ o, ob = some o ∧ ∃ P ∈ s.procs, ∃ sc pa po fn, P.k = .allocTasks o sc pa po fn ∧
        dictGet pa x = some mx) ∧
      (∀ P ∈ s.procs, ∀ o sc pa po fn, P.k = .allocTasks o sc pa po fn →
        ∀ m', dictGet pa x = some m' → m' = mx) := by
  intro q hq x mx c ob ret hqk
  have hcx := cross_reach_cx s0 s hw (hb0_bufList hb0) ha h hc
  exact ⟨hcx.atTab q hq x mx c ob ret hqk,
    fun P hP o sc pa po fn hPk m' hg => hcx.paAT P hP o sc pa po fn hPk q hq x mx c ob ret hqk m' hg⟩

/-- (i) **The cross-machine list is exact.**  For the body `doWork t m cross …` of a workflow task
(any phase): with `r` the record of `t`, every task of `r.preds` has run, on exactly one machine
(`crossRanOn`), and
`x ∈ cross ↔ x ∈ r.preds ∧ crossRanOn x ≠ some m` —
the list consists of the predecessors that ran on a different machine, and of nothing else; a
predecessor that ran on `m` itself is not in the list (and so imposes no wait:
`C03_start_formula` ranges over `cross`). -/
theorem C03_cross_exact_traj (s0 s : Sys) (hw : WFConfig s0) (ha : s0.alg ≠ .oracle)
    (hb0 : s0.buf.hot.stored = [] ∧ s0.buf.hot.scheduled = [] ∧ s0.buf.hot.finished = [] ∧
      s0.buf.cold.stored = [])
    (h : Reach s0 s) (hc : s.crashed = none) :
    ∀ d ∈ s.procs, ∀ t m cross ph tot, d.k = .doWork t m cross ph tot → IsWf t →
      ∃ r, s.task? t = some r ∧ (∀ x ∈ r.preds, ∃ mx, s.crossRanOn x = some mx) ∧
        ∀ x, x ∈ cross ↔ x ∈ r.preds ∧ s.crossRanOn x ≠ some m := by
  intro d hd t m cross ph tot hdk hwf
  have hcx := cross_reach_cx s0 s hw (hb0_bufList hb0) ha h hc
  have hs := reach_inv s0 s hw (h.toOk ha)
  exact cross_exact_of_ex hs (hcx.dwCross d hd t m cross ph tot hdk hwf)

/-- (i), per predecessor: each predecessor `x` of `t` ran on one machine `mx`, that machine is the
one the allocation tables record for `x`, and `x` is in the list handed to the body on `m` iff
`mx ≠ m`. -/
theorem C03_cross_exact_pred_traj (s0 s : Sys) (hw : WFConfig s0) (ha : s0.alg ≠ .oracle)
    (hb0 : s0.buf.hot.stored = [] ∧ s0.buf.hot.scheduled = [] ∧ s0.buf.hot.finished = [] ∧
      s0.buf.cold.stored = [])
    (h : Reach s0 s) (hc : s.crashed = none) :
    ∀ d ∈ s.procs, ∀ t m cross ph tot, d.k = .doWork t m cross ph tot → IsWf t →
      ∃ r, s.task? t = some r ∧ ∀ x ∈ r.preds, ∃ mx, s.crossRanOn x = some mx ∧ (x ∈ cross ↔ mx ≠ m) ∧
        (∃ P ∈ s.procs, ∃ o sc pa po fn, P.k = .allocTasks o sc pa po fn ∧ dictGet pa x = some mx) ∧
        (∀ P ∈ s.procs, ∀ o sc pa po fn, P.k = .allocTasks o sc pa po fn →
          ∀ m', dictGet pa x = some m' → m' = mx) := by
  intro d hd t m cross ph tot hdk hwf
  obtain ⟨r, hr, h1, h2⟩ := C03_cross_exact_traj s0 s hw ha hb0 h hc d hd t m cross ph tot hdk hwf
  have hs := reach_inv s0 s hw (h.toOk ha)
  have hst := reach_st s0 s hw (hb0_bufList hb0) ha h hc
  refine ⟨r, hr, fun x hx => ?_⟩
  obtain ⟨mx, hmx⟩ := h1 x hx
  obtain ⟨dx, hdx, cx, phx, totx, hdxk⟩ := (cross_ranOn_iff hs x mx).mp hmx
  obtain ⟨_, g2, g3⟩ := C03_alloc_table_true_traj s0 s hw ha hb0 h hc dx hdx x mx cx phx totx hdxk
    (hst.predsWf t r hr x hx)
  refine ⟨mx, hmx, ?_, g2, g3⟩
  rw [h2 x, hmx]
  constructor
  · rintro ⟨_, hne⟩ e; exact hne (by rw [e])
  · intro hne; exact ⟨hx, fun e => hne (by injection e)⟩

/-- (i) for the scheduler-side allocation process (before the body exists): the list it carries is
exact as well -/
theorem C03_cross_exact_alloc_traj (s0 s : Sys) (hw : WFConfig s0) (ha : s0.alg ≠ .oracle)
    (hb0 : s0.buf.hot.stored = [] ∧ s0.buf.hot.scheduled = [] ∧ s0.buf.hot.finished = [] ∧
      s0.buf.cold.stored = [])
    (h : Reach s0 s) (hc : s.crashed = none) :
    ∀ q ∈ s.procs, ∀ t m cross ob ret, q.k = .allocTask t m cross ob false ret →
      ∃ r, s.task? t = some r ∧ (∀ x ∈ r.preds, ∃ mx, s.crossRanOn x = some mx) ∧
        ∀ x, x ∈ cross ↔ x ∈ r.preds ∧ s.crossRanOn x ≠ some m := by
  intro q hq t m cross ob ret hqk
  have hcx := cross_reach_cx s0 s hw (hb0_bufList hb0) ha h hc
  have hs := reach_inv s0 s hw (h.toOk ha)
  exact cross_exact_of_ex hs (hcx.atCross q hq t m cross ob ret hqk)

/-! ### (ii) the allocation time, exactly -/

/-- (ii), forward form, over a trajectory segment.  Let `p` be the enabled allocation process
`allocate_task_to_cluster(t, m)` of a workflow task in a reachable state `s1`, the cluster not
running `t` yet (`CrossAlloc`): the block `p` runs next, at time `p.wake`, is the one in which the
cluster accepts the task.  If that block does not raise it creates the body as process
`s1.nextPid`, not yet run and due at the SAME instant `p.wake`; and in every later state `s` of the
run that has not crashed (`CrossSeg`): while the body has not run it is due at `p.wake`; while it
waits for its inputs it is due at `startTime p.wake bw arrivals`; once it has stamped the start,
`ast = startTime p.wake bw arrivals`. -/
theorem C03_recorded_start_from_alloc (s0 s1 s : Sys) (hw : WFConfig s0) (ha : s0.alg ≠ .oracle)
    (hb0 : s0.buf.hot.stored = [] ∧ s0.buf.hot.scheduled = [] ∧ s0.buf.hot.finished = [] ∧
      s0.buf.cold.stored = [])
    (p : Proc) (t : Tid) (m : Mid) (cross : List Tid) (orc : Oracle) (hwf : IsWf t)
    (hal : CrossAlloc s0 s1 p t m cross) (hl : Later s0 (s1.resume p.pid orc).1 s) (hc : s.crashed = none) :
    (∃ obs ret, p.k = .allocTask t m cross obs false ret) ∧
    (∀ q ∈ s1.procs, q.pid < s1.nextPid) ∧
    (∃ d0 ∈ (s1.resume p.pid orc).1.procs, d0.pid = s1.nextPid ∧ d0.k = .doWork t m cross 0 0 ∧
      d0.wake = p.wake ∧ d0.alive = true ∧ d0.pc = 0) ∧
    CrossSeg s1.nextPid t m cross p.wake s := by
  have hs1 := reach_inv s0 s1 hw (hal.reach.toOk ha)
  have hc1 := cross_later_crashed hl hc
  obtain ⟨g1, g2⟩ := cross_alloc_body hs1 hal orc hc1
  exact ⟨cross_alloc_ing hs1 hal hwf, g1, g2,
    cross_later_seg hw (hb0_bufList hb0) ha hl hwf (cross_alloc_spawns hs1 hal orc hc1) hc⟩

/-- (ii) **The recorded start with the allocation time.**  For the body `d = doWork t m cross …` of
a started workflow task in a reachable state `s` that has not crashed there are a reachable state
`s1`, a process `p` and an oracle `orc` such that: `p` is enabled in `s1` and is the allocation
process `allocate_task_to_cluster(t, m)` carrying the same list `cross`; the cluster does not run
`t` in `s1` (so `p`'s next block is the one in which the cluster accepts `t` on `m`); that block,
run at time `p.wake`, creates `d` (`d.pid = s1.nextPid`, larger than every pid of `s1`), not yet run
and due at the same instant `p.wake`; `s` is a later state of the same run; and
`ast = startTime p.wake bw arrivals` —
by `C03_start_formula` the later of the time of the allocation block and the last
`aft(x) + volume(x → t) / bw` over `x ∈ cross`, which by `C03_cross_exact_traj` are exactly the
predecessors that ran on a different machine. -/
theorem C03_recorded_start_exact_traj (s0 s : Sys) (hw : WFConfig s0) (ha : s0.alg ≠ .oracle)
    (hb0 : s0.buf.hot.stored = [] ∧ s0.buf.hot.scheduled = [] ∧ s0.buf.hot.finished = [] ∧
      s0.buf.cold.stored = [])
    (h : Reach s0 s) (hc : s.crashed = none) :
    ∀ d ∈ s.procs, ∀ t m cross ph tot, d.k = .doWork t m cross ph tot → 2 ≤ ph → IsWf t →
      ∃ s1 p orc obs ret, Reach s0 s1 ∧ p ∈ s1.procs ∧ s1.enabled p.pid ∧
        p.k = .allocTask t m cross obs false ret ∧ t ∉ s1.cl.running ∧
        d.pid = s1.nextPid ∧ (∀ q ∈ s1.procs, q.pid < s1.nextPid) ∧
        (∃ d0 ∈ (s1.resume p.pid orc).1.procs, d0.pid = d.pid ∧ d0.k = .doWork t m cross 0 0 ∧
          d0.wake = p.wake ∧ d0.alive = true ∧ d0.pc = 0) ∧
        Later s0 (s1.resume p.pid orc).1 s ∧
        ∃ r mm, s.task? t = some r ∧ s.machine? m = some mm ∧
          r.ast = some (startTime p.wake mm.bw (crossArr s r cross)) := by
  intro d hd t m cross ph tot hdk hph hwf
  obtain ⟨s1, p, orc, g1, g2, g3, _, g5⟩ :=
    cross_reach_recorded_start_exact s0 s hw (hb0_bufList hb0) ha h hc d hd t m cross ph tot hdk hph hwf
  have hs1 := reach_inv s0 s1 hw (g1.reach.toOk ha)
  have hc1 := cross_later_crashed g3 hc
  obtain ⟨obs, ret, hk⟩ := cross_alloc_ing hs1 g1 hwf
  obtain ⟨k1, d0, hd0, k2, k3, k4, k5, k6⟩ := cross_alloc_body hs1 g1 orc hc1
  exact ⟨s1, p, orc, obs, ret, g1.reach, g1.mem, g1.en, hk, g1.fresh, g2, k1,
    ⟨d0, hd0, k2.trans g2.symm, k3, k4, k5, k6⟩, g3, g5⟩

/-! ### along the simulator's runs -/

/-- (i) for the states of the simulator (SimPy order): the cross-machine list is exact -/
theorem C03_cross_exact_simpy (env : SimEnv) (s0 : Sys) (hw : WFConfig s0) (ha : s0.alg ≠ .oracle)
    (hb0 : s0.buf.hot.stored = [] ∧ s0.buf.hot.scheduled = [] ∧ s0.buf.hot.finished = [] ∧
      s0.buf.cold.stored = [])
    (k : SimState) (h : SimRun env s0 k) (hc : k.st.crashed = none) :
    ∀ d ∈ k.st.procs, ∀ t m cross ph tot, d.k = .doWork t m cross ph tot → IsWf t →
      ∃ r, k.st.task? t = some r ∧ (∀ x ∈ r.preds, ∃ mx, k.st.crossRanOn x = some mx) ∧
        ∀ x, x ∈ cross ↔ x ∈ r.preds ∧ k.st.crossRanOn x ≠ some m :=
  L3_transfer env s0 hw
    (fun s => s.crashed = none → ∀ d ∈ s.procs, ∀ t m cross ph tot, d.k = .doWork t m cross ph tot → IsWf t →
      ∃ r, s.task? t = some r ∧ (∀ x ∈ r.preds, ∃ mx, s.crossRanOn x = some mx) ∧
        ∀ x, x ∈ cross ↔ x ∈ r.preds ∧ s.crossRanOn x ≠ some m)
    (fun s hs hc => C03_cross_exact_traj s0 s hw ha hb0 hs.toReach hc) (by intro _ h; exact h) k h hc

/-- the allocation table is true along the simulator's runs -/
theorem C03_alloc_table_true_simpy (env : SimEnv) (s0 : Sys) (hw : WFConfig s0) (ha : s0.alg ≠ .oracle)
    (hb0 : s0.buf.hot.stored = [] ∧ s0.buf.hot.scheduled = [] ∧ s0.buf.hot.finished = [] ∧
      s0.buf.cold.stored = [])
    (k : SimState) (h : SimRun env s0 k) (hc : k.st.crashed = none) :
    ∀ d ∈ k.st.procs, ∀ x mx c ph tot, d.k = .doWork x mx c ph tot → IsWf x →
      k.st.crossRanOn x = some mx ∧
      (∃ P ∈ k.st.procs, ∃ o sc pa po fn, P.k = .allocTasks o sc pa po fn ∧ dictGet pa x = some mx) ∧
      (∀ P ∈ k.st.procs, ∀ o sc pa po fn, P.k = .allocTasks o sc pa po fn →
        ∀ m', dictGet pa x = some m' → m' = mx) :=
  L3_transfer env s0 hw
    (fun s => s.crashed = none → ∀ d ∈ s.procs, ∀ x mx c ph tot, d.k = .doWork x mx c ph tot → IsWf x →
      s.crossRanOn x = some mx ∧
      (∃ P ∈ s.procs, ∃ o sc pa po fn, P.k = .allocTasks o sc pa po fn ∧ dictGet pa x = some mx) ∧
      (∀ P ∈ s.procs, ∀ o sc pa po fn, P.k = .allocTasks o sc pa po fn →
        ∀ m', dictGet pa x = some m' → m' = mx))
    (fun s hs hc => C03_alloc_table_true_traj s0 s hw ha hb0 hs.toReach hc) (by intro _ h; exact h) k h hc

/-- (ii) for the states of the simulator: the recorded start of a started workflow task is
`startTime alloc bw arrivals` where `alloc` is the time of the block, run by an enabled allocation
process `p` of a state `s1` of the block system reached on the way, in which the cluster accepted
the task and the body was created (the `Later` clause of `C03_recorded_start_exact_traj` is a
statement about the block system and is not repeated here). -/
theorem C03_recorded_start_exact_simpy (env : SimEnv) (s0 : Sys) (hw : WFConfig s0) (ha : s0.alg ≠ .oracle)
    (hb0 : s0.buf.hot.stored = [] ∧ s0.buf.hot.scheduled = [] ∧ s0.buf.hot.finished = [] ∧
      s0.buf.cold.stored = [])
    (k : SimState) (h : SimRun env s0 k) (hc : k.st.crashed = none) :
    ∀ d ∈ k.st.procs, ∀ t m cross ph tot, d.k = .doWork t m cross ph tot → 2 ≤ ph → IsWf t →
      ∃ s1 p orc obs ret, Reach s0 s1 ∧ p ∈ s1.procs ∧ s1.enabled p.pid ∧
        p.k = .allocTask t m cross obs false ret ∧ t ∉ s1.cl.running ∧
        d.pid = s1.nextPid ∧ (∀ q ∈ s1.procs, q.pid < s1.nextPid) ∧
        (∃ d0 ∈ (s1.resume p.pid orc).1.procs, d0.pid = d.pid ∧ d0.k = .doWork t m cross 0 0 ∧
          d0.wake = p.wake ∧ d0.alive = true ∧ d0.pc = 0) ∧
        ∃ r mm, k.st.task? t = some r ∧ k.st.machine? m = some mm ∧
          r.ast = some (startTime p.wake mm.bw (crossArr k.st r cross)) :=
  L3_transfer env s0 hw
    (fun s => s.crashed = none → ∀ d ∈ s.procs, ∀ t m cross ph tot, d.k = .doWork t m cross ph tot → 2 ≤ ph →
      IsWf t →
      ∃ s1 p orc obs ret, Reach s0 s1 ∧ p ∈ s1.procs ∧ s1.enabled p.pid ∧
        p.k = .allocTask t m cross obs false ret ∧ t ∉ s1.cl.running ∧
        d.pid = s1.nextPid ∧ (∀ q ∈ s1.procs, q.pid < s1.nextPid) ∧
        (∃ d0 ∈ (s1.resume p.pid orc).1.procs, d0.pid = d.pid ∧ d0.k = .doWork t m cross 0 0 ∧
          d0.wake = p.wake ∧ d0.alive = true ∧ d0.pc = 0) ∧
        ∃ r mm, s.task? t = some r ∧ s.machine? m = some mm ∧
          r.ast = some (startTime p.wake mm.bw (crossArr s r cross)))
    (fun s hs hc d hd t m cross ph tot hdk hph hwf => by
      obtain ⟨s1, p, orc, obs, ret, a1, a2, a3, a4, a5, a6, a7, a8, _, a10⟩ :=
        C03_recorded_start_exact_traj s0 s hw ha hb0 hs.toReach hc d hd t m cross ph tot hdk hph hwf
      exact ⟨s1, p, orc, obs, ret, a1, a2, a3, a4, a5, a6, a7, a8, a10⟩)
    (by intro _ h; exact h) k h hc

/-! ### non-vacuity -/

theorem cross_precRun_append (a b : List Nat) (s : Sys) : precRun (a ++ b) s = precRun b (precRun a s) := by
  induction a generalizing s with
  | nil => rfl
  | cons x r ih => exact ih _

/-- Non-vacuity of (i) and (ii).  Configuration `crossW` (TopsimProofs/Cross7.lean): two machines of
bandwidth 2, the queue algorithm, one observation whose workflow is `0 → 1 → 2`, `0 → 2` (three
units of data on the edges out of node 0, five on `1 → 2`).  In the run `crossSched` (blocks in
creation order, no delay): `crossA` (node 0) ran on machine 1, `crossB` (node 1) on machine 0; the
state `s1` after the prefix `crossSchedPre` has the enabled allocation process 15 of `crossC` on
machine 1 with the list `[crossB]`, due at t = 8, `crossC` not running, next pid 16; the blocks
15, 16, 16 lead to `s`, where body 16 = `doWork crossC 1 [crossB]` has started:
the record of `crossC` has `preds = [crossA, crossB]`; `crossA` ran on machine 1 = the machine of
`crossC` and is NOT in the list, `crossB` ran on machine 0 and IS; the allocation table of
`allocate_tasks` (process 10) is `crossA ↦ 1, crossB ↦ 0, crossC ↦ 1`; and
`ast = 9 = startTime 8 2 [(13/2, 5)]`, the later of the allocation time 8 and `13/2 + 5/2`. -/
example : ∃ s1 s, Reach crossW s1 ∧ Reach crossW s ∧ s = precRun [15, 16, 16] s1 ∧ s.crashed = none ∧
    (s1.proc? 15).bind (fun p => crossAllocTask? p.k) = some (crossC, 1, [crossB], false) ∧
    (s1.proc? 15).map (fun p => (p.wake, p.alive, p.pc)) = some (8, true, 0) ∧
    decide (crossC ∈ s1.cl.running) = false ∧ s1.nextPid = 16 ∧
    (s.proc? 16).bind (fun p => precDoWork? p.k) = some (crossC, 1, [crossB], 2, 1) ∧
    (s.task? crossC).map (fun r => (r.ast, r.preds, r.io)) =
      some (some 9, [crossA, crossB], [(crossA, 3), (crossB, 5)]) ∧
    (s.crossRanOn crossA, s.crossRanOn crossB, s.crossRanOn crossC) = (some 1, some 0, some 1) ∧
    (s.proc? 10).bind (fun p => crossPairs? p.k) = some [(crossA, 1), (crossB, 0), (crossC, 1)] ∧
    (s.task? crossB).map (fun r => (r.status, r.aft)) = some (.finished, some (13 / 2)) ∧
    (s.machine? 1).map (·.bw) = some 2 ∧ startTime 8 2 [(13 / 2, 5)] = 9 := by
  refine ⟨precRun crossSchedPre crossW.start, precRun crossSched crossW.start, crossSchedPre_reach,
    crossSched_reach, ?_, crossSched_final.1, crossSchedPre_final.2.1, crossSchedPre_final.2.2.1,
    crossSchedPre_final.2.2.2.1, crossSchedPre_final.2.2.2.2, crossSched_final.2.1, crossSched_final1.1,
    crossSched_final2.1, crossSched_final2.2.1, crossSched_final1.2.2, crossSched_final2.2.2, by decide +kernel⟩
  rw [crossSched_eq, cross_precRun_append]

/-- … and the general theorems applied to that state: the list of body 16 is exact, and its
recorded start is `startTime` of the time of an allocation block -/
example : ∃ s, Reach crossW s ∧ s.crashed = none ∧
    (∃ d ∈ s.procs, d.k = .doWork crossC 1 [crossB] 2 1 ∧
      ∃ r, s.task? crossC = some r ∧ ∀ x, x ∈ [crossB] ↔ x ∈ r.preds ∧ s.crossRanOn x ≠ some 1) := by
  refine ⟨precRun crossSched crossW.start, crossSched_reach, crossSched_final.1, ?_⟩
  have h16 := crossSched_final.2.1
  cases hp : (precRun crossSched crossW.start).proc? 16 with
  | none => rw [hp] at h16; simp at h16
  | some d =>
    rw [hp] at h16
    have hk : d.k = .doWork crossC 1 [crossB] 2 1 := precDoWork?_eq h16
    have hd : d ∈ (precRun crossSched crossW.start).procs := (proc?_some hp).1
    obtain ⟨r, hr, _, h2⟩ := C03_cross_exact_traj crossW _ crossW_wf
      (by show AlgKind.queue ≠ AlgKind.oracle; intro h; cases h) crossW_buf crossSched_reach
      crossSched_final.1 d hd crossC 1 [crossB] 2 1 hk ⟨0, 1, 2, rfl⟩
    exact ⟨d, hd, hk, r, hr, h2⟩

end Sys
end Topsim
