/-
  C03 — workflow precedence and data-transfer waits are respected.
  (Algorithm-level and task-level statements; the trajectory form is in
  TopsimProps/SysSafety.lean.)
-/
import TopsimProofs.AlgLemmas

namespace Topsim

/-- BatchProcessing / QueueProcessing / DynamicSchedulingFromPlan: a task is
newly proposed only if it is UNSCHEDULED and every predecessor in the workflow
graph is finished in the cluster's view. -/
theorem C03_alg_ready_queue (cl : Cluster) (plan : Plan) (view : Tid → TaskView)
    (sched : List (Tid × Mid)) (pool : List Tid) (out : AlgOut)
    (h : Alg.queueRun cl plan view sched pool = .ok out) :
    ∀ p ∈ out.schedule, p ∉ sched →
      (view p.1).status = .unscheduled ∧ ∀ q ∈ plan.preds p.1, cl.isTaskFinished q = true :=
  queue_ready cl plan view sched pool out h

theorem C03_alg_ready_batch (cl : Cluster) (plan : Plan) (view : Tid → TaskView)
    (parts minPer : Nat) (split : Option (List (Oid × Nat × Nat)))
    (sched : List (Tid × Mid)) (pool : List Tid) (out : AlgOut)
    (h : Alg.batchRun cl plan view parts minPer split sched pool = .ok out) :
    ∀ p ∈ out.schedule, p ∉ sched →
      (view p.1).status = .unscheduled ∧ ∀ q ∈ plan.preds p.1, cl.isTaskFinished q = true :=
  batch_ready cl plan view parts minPer split sched pool out h

theorem C03_alg_ready_dynamic (cl : Cluster) (plan : Plan) (view : Tid → TaskView)
    (sched : List (Tid × Mid)) (pool : List Tid) (out : AlgOut)
    (h : Alg.dynamicRun cl plan view sched pool = .ok out) :
    ∀ p ∈ out.schedule, p ∉ sched →
      (view p.1).status = .unscheduled ∧ ∀ q ∈ plan.preds p.1, cl.isTaskFinished q = true :=
  dynamic_ready cl plan view sched pool out h

/-- GreedySchedulingFromPlan consults the ids of the cluster's finished-task map -/
-- CORRECTED: added `hview` (a task whose `pred` list is empty has no predecessor ids).
-- `TaskView.hasPred` and `TaskView.predIds` are independent fields, and Greedy allocates a task
-- with `hasPred = false` without looking at `predIds`.  Counterexample without `hview`:
--   cl := Cluster.init [0], plan := { obs := 0, tasks := [.raw 1], edges := [], est := 0 },
--   view t := { id := t, status := .unscheduled, est := 0, hasPred := false,
--               predIds := [.raw 0], machine := .ok 0 }, sched := [], pool := []
-- gives schedule [(.raw 1, 0)] while `.raw 0` is not in `cl.finished` (checked with `#eval`).
-- The views the simulation builds (`Sys.taskView`) satisfy `hview`: `C03_taskView_hasPred`.
theorem C03_alg_ready_greedy (cl : Cluster) (plan : Plan) (view : Tid → TaskView)
    (hview : ∀ t, (view t).hasPred = false → (view t).predIds = [])
    (sched : List (Tid × Mid)) (pool : List Tid) (out : AlgOut)
    (h : Alg.greedyRun cl plan view sched pool = .ok out) :
    ∀ p ∈ out.schedule, p ∉ sched →
      (view p.1).status = .unscheduled ∧ ∀ q ∈ (view p.1).predIds, dictHas cl.finished q = true :=
  greedy_ready cl plan view hview sched pool out h

/-- the added hypothesis holds for every view the simulation hands to an algorithm -/
theorem C03_taskView_hasPred (s : Sys) (t : Tid) :
    (s.taskView t).hasPred = false → (s.taskView t).predIds = [] := by
  unfold Sys.taskView
  split
  · intro _; rfl
  · intro h; simpa using h

-- the counterexample to the uncorrected statement
example :
    let cl := Cluster.init [0]
    let plan : Plan := { obs := 0, tasks := [.raw 1], edges := [], est := 0 }
    let view : Tid → TaskView := fun t =>
      { id := t, status := .unscheduled, est := 0, hasPred := false, predIds := [.raw 0], machine := .ok 0 }
    (∃ out, Alg.greedyRun cl plan view [] [] = .ok out ∧ out.schedule = [(.raw 1, 0)]) ∧
      dictHas cl.finished (.raw 0) = false := by
  exact ⟨⟨_, rfl, rfl⟩, rfl⟩

/-- the list handed to `do_work` is exactly the predecessors recorded on a
different machine (none for same-machine predecessors) -/
theorem C03_cross_list (pairs : List (Tid × Mid)) (preds : List Tid) (m : Mid) (p : Tid) :
    p ∈ Sys.crossPreds pairs preds m ↔ p ∈ preds ∧ dictGet pairs p ≠ some m :=
  crossPreds_iff pairs preds m p

/-- the recorded start is exactly the later of the allocation time and the
last arrival `aft + volume / bandwidth` over the cross-machine predecessors -/
theorem C03_start_formula (alloc : Time) (bw : Nat) (preds : List (Time × Nat)) :
    startTime alloc bw preds =
      preds.foldl (fun acc p => max acc (p.1 + (p.2 : Rat) / (bw : Rat))) alloc :=
  startTime_eq_max alloc bw preds

theorem C03_start_ge (alloc : Time) (bw : Nat) (preds : List (Time × Nat)) :
    alloc ≤ startTime alloc bw preds ∧
    ∀ p ∈ preds, p.1 + (p.2 : Rat) / (bw : Rat) ≤ startTime alloc bw preds :=
  startTime_ge alloc bw preds

theorem C03_no_wait_same_machine (alloc : Time) (bw : Nat) : startTime alloc bw [] = alloc := by
  simp [startTime]

-- non-vacuity: allocation at 7, predecessors finished at 6 (volume 8) and 7 (volume 1), bandwidth 4
example : startTime 7 4 [(6, 8), (7, 1)] = 8 ∧ startTime 7 4 [(6, 2)] = 7 := by
  decide +kernel

end Topsim
