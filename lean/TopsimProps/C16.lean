/-
  C16 — timestep units rescale every time-dependent quantity consistently.
-/
import TopsimProofs.ConfigLemmas

namespace Topsim

theorem C16_multiplier_values (n : Int) :
    multiplier (.str "seconds") = 1 ∧ multiplier (.str "minutes") = 60 ∧
    multiplier (.str "hours") = 3600 ∧ multiplier (.int n) = n := by
  refine ⟨?_, ?_, ?_, ?_⟩ <;> simp [multiplier]

/-- start and duration are divided, the rates, speed and bandwidths multiplied, by
the same factor -/
theorem C16_scale_shape (u : TimeUnit) (start duration rate hot cold flops bw sysbw : Rat) :
    let m : Rat := multiplier u
    let r := scale u start duration rate hot cold flops bw sysbw
    r.start = start / m ∧ r.duration = duration / m ∧ r.hotRate = hot * m ∧
    r.coldRate = cold * m ∧ r.cpu = flops * m ∧ r.bandwidth = bw * m ∧
    r.sysBandwidth = sysbw * m ∧ r.dataRate = roundHalfEven (rate * m) := by
  simp [scale]

/-- for a whole-number rate the scaled data rate is exact -/
theorem C16_rate_exact (u : TimeUnit) (rate : Int) :
    roundHalfEven ((rate : Rat) * (multiplier u : Rat)) = rate * multiplier u :=
  round_int_mul rate (multiplier u)

/-- data volume per observation does not depend on the unit (duration a whole
multiple of the unit) -/
theorem C16_volume_invariant (u : TimeUnit) (rate k : Int) (hm : multiplier u ≠ 0) :
    let m := multiplier u
    let r := scale u 0 ((k * m : Int) : Rat) rate 0 0 0 0 0
    (r.dataRate : Rat) * r.duration = (rate : Rat) * ((k * m : Int) : Rat) :=
  volume_invariant u rate k hm

/-- rate-limit comparisons do not depend on the unit -/
theorem C16_rate_limit_invariant (u : TimeUnit) (rate hot : Rat) (hm : 0 < multiplier u) :
    (rate * (multiplier u : Rat) ≤ hot * (multiplier u : Rat)) ↔ rate ≤ hot :=
  rate_limit_invariant u rate hot hm

/-- task runtimes measured in seconds do not depend on the unit: for work that
is a whole number of scaled steps, steps × unit = work / speed -/
theorem C16_runtime_invariant (work speed m : Nat) (hm : 0 < m) (hs : 0 < speed)
    (hdiv : (speed * m) ∣ work) : m * (work / (speed * m)) = work / speed :=
  runtime_invariant work speed m hm hs hdiv

-- non-vacuity
example : (scale (.str "minutes") 120 600 5 10 20 3 4 1).duration = 10 ∧
          (scale (.str "minutes") 120 600 5 10 20 3 4 1).dataRate = 300 ∧
          (scale (.int 30) 120 600 5 10 20 3 4 1).cpu = 90 := by
  decide +kernel

end Topsim
