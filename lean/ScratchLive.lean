import TopsimModel.Feasible
open Topsim Topsim.Sys
namespace Scr

def summ (r : SimState × Nat) : String :=
  let s := r.1.st
  s!"t={r.2} fin={s.isFinished} crash={repr s.crashed} halted={s.halted} obs={repr (s.obs.map (fun o => (o.id, o.status, o.ast)))} queue={s.queue} hot={s.buf.hot.cur}/{s.buf.hot.total} cold={s.buf.cold.cur} stored={s.buf.hot.stored} sched={s.buf.hot.scheduled} avail={s.cl.available} ing={s.cl.ingest} occ={s.cl.occupied} running={repr s.cl.running} telUse={s.telUse} prov={s.provIngest} plans={repr (s.plans.map (fun p => (p.obs, p.tasks.length, p.status)))}"

def mk (ms : List Machine) (arrays maxIng : Nat) (hot cold : Int) (obs : List Obs) : Sys :=
  { machines := ms, totalArrays := arrays, maxIngest := maxIng, alg := .queue,
    cl := Cluster.init (ms.map (·.id)), buf := Buffer.init hot 50 cold 50, obs := obs }

def chain (n : Nat) (w : Nat := 10) : Workflow :=
  { nodes := (List.range n).map (fun i => (i, w, 0)),
    edges := (List.range (n-1)).map (fun i => (i, i+1, 4)),
    topo := List.range n }
def wide (n : Nat) (w : Nat := 10) : Workflow :=
  { nodes := (List.range n).map (fun i => (i, w, 0)), edges := [], topo := List.range n }
def emptyW : Workflow := { nodes := [], edges := [], topo := [] }
def diamond : Workflow :=
  { nodes := [(0,10,0),(1,10,0),(2,30,0),(3,10,7)], edges := [(0,1,3),(0,2,5),(1,3,7),(2,3,1)], topo := [0,1,2,3] }
def fork : Workflow :=
  { nodes := [(0,0,0),(1,25,0),(2,3,9),(3,0,0),(4,1,1)], edges := [(0,1,3),(0,2,5),(0,3,0),(3,4,100)], topo := [0,3,2,1,4] }
def join : Workflow :=
  { nodes := [(0,7,0),(1,25,0),(2,3,9),(3,0,0)], edges := [(0,3,3),(1,3,5),(2,3,0)], topo := [2,1,0,3] }

def wfs : List Workflow := [emptyW, chain 1, chain 1 0, chain 3, chain 2 0, wide 3, wide 5, diamond, fork, join]

def machSets : List (List Machine) :=
  [[⟨0, 10, 2⟩], [⟨0, 10, 2⟩, ⟨1, 5, 4⟩], [⟨0, 10, 2⟩, ⟨1, 5, 4⟩, ⟨2, 1, 1⟩], [⟨0, 3, 3⟩, ⟨1, 3, 3⟩, ⟨2, 3, 3⟩, ⟨3, 3, 3⟩]]

structure G where
  seed : Nat
def next (g : G) (n : Nat) : Nat × G :=
  let s := (g.seed * 6364136223846793005 + 1442695040888963407) % 18446744073709551616
  ((s / 4294967296) % n, ⟨s⟩)

def genObs (g : G) (id : Nat) (arrays maxIng nm : Nat) : Obs × G :=
  let (est, g) := next g 7
  let (dur, g) := next g 3
  let (dem, g) := next g arrays
  let (rate, g) := next g 3
  let (ing, g) := next g (min maxIng nm)
  let (w, g) := next g wfs.length
  ({ id := id, est := est, duration := dur + 1, demand := dem + 1, rate := rate + 1,
     ingestDemand := ing + 1, wf := wfs.getD w emptyW }, g)

def genCfg (g : G) : Sys × G :=
  let (mi, g) := next g machSets.length
  let ms := machSets.getD mi []
  let (arrays, g) := next g 4
  let arrays := arrays + 1
  let (maxIng, g) := next g 3
  let maxIng := maxIng + 1
  let (nobs, g) := next g 4
  let nobs := nobs + 1
  let (obs, g) := (List.range nobs).foldl (fun (acc : List Obs × G) i =>
    let (o, g) := genObs acc.2 i arrays maxIng ms.length
    (acc.1 ++ [o], g)) ([], g)
  (mk ms arrays maxIng 1000 1000 obs, g)

def descr (s : Sys) : String :=
  s!"machines={s.machines.length} arrays={s.totalArrays} maxIng={s.maxIngest} obs={repr (s.obs.map (fun o => (o.id, o.est, o.duration, o.demand, o.rate, o.ingestDemand, o.wf.topo, o.wf.edges.map (fun e => (e.1, e.2.1)))))}"

/-- random DAG on n nodes: edges i<j with prob ~1/3, topo = identity or a shuffled consistent order -/
def genWf (g : G) : Workflow × G :=
  let (n, g) := next g 7
  let (nodes, g) := (List.range n).foldl (fun (acc : List (Nat × Nat × Nat) × G) i =>
    let (c, g) := next acc.2 4
    let (d, g) := next g 3
    (acc.1 ++ [(i, c * 7, d * 5)], g)) ([], g)
  let pairs := (List.range n).flatMap (fun j => (List.range j).map (fun i => (i, j)))
  let (edges, g) := pairs.foldl (fun (acc : List (Nat × Nat × Nat) × G) p =>
    let (c, g) := next acc.2 3
    let (v, g) := next g 9
    (if c = 0 then acc.1 ++ [(p.1, p.2, v)] else acc.1, g)) ([], g)
  ({ nodes := nodes, edges := edges, topo := List.range n }, g)

def genObs2 (g : G) (id : Nat) (arrays maxIng nm : Nat) (serial : Bool) : Obs × G :=
  let (est, g) := next g 9
  let (dur, g) := next g 4
  let (dem, g) := if serial then (let (x, g) := next g (arrays - arrays / 2); (x + arrays / 2, g)) else next g arrays
  let (rate, g) := next g 3
  let (ing, g) := next g (min maxIng nm)
  let (w, g) := genWf g
  ({ id := id, est := est, duration := dur + 1, demand := dem + 1, rate := rate + 1,
     ingestDemand := ing + 1, wf := w }, g)

def genCfg2 (g : G) (serial : Bool) (big : Bool := false) : Sys × G :=
  let (mi, g) := next g (if big then 7 else machSets.length)
  let ms := if big then (List.range (mi + 1)).map (fun i => (⟨i, 1 + (i * 7) % 5, 1 + (i * 3) % 4⟩ : Machine)) else machSets.getD mi []
  let (arrays, g) := next g 4
  let arrays := arrays + 1
  let (maxIng, g) := next g 4
  let maxIng := maxIng + 1
  let (nobs, g) := next g (if big then 8 else 4)
  let nobs := nobs + 1
  let (obs, g) := (List.range nobs).foldl (fun (acc : List Obs × G) i =>
    let (o, g) := genObs2 acc.2 i arrays maxIng ms.length serial
    (acc.1 ++ [o], g)) ([], g)
  -- H1: hot total with sum(sizes) <= 3/5 total, tight
  let tot : Int := (obs.map (fun o => o.rate * (o.duration : Int))).foldl (· + ·) 0
  let (slack, g) := next g 3
  let hot : Int := (5 * tot + 2) / 3 + slack
  (mk ms arrays maxIng hot 1000 obs, g)

def sameAst (s : Sys) : Bool :=
  s.obs.any (fun o => o.ast.isSome && s.obs.any (fun p => p.id != o.id && p.ast == o.ast))

def hunt2 (n : Nat) (seed : Nat) (serial : Bool) (big : Bool := false) : IO Unit := do
  let mut g : G := ⟨seed⟩
  let mut ok := 0
  let mut k2 := 0
  let mut bad := 0
  let mut maxOver : Int := 0
  for _ in [0:n] do
    let (s0, g') := genCfg2 g serial big
    g := g'
    let r := SimState.runToCompletion {} 100000 1500 0 (SimState.start s0)
    let over : Int := (r.2 : Int) - (serialBound s0 : Int)
    if r.1.st.isFinished && r.1.st.crashed.isNone then
      ok := ok + 1
      if over > maxOver then
        maxOver := over
        IO.println s!"OVER BOUND by {over}: {descr s0} hot={s0.buf.hot.total} t={r.2} bound={serialBound s0}"
    else if r.1.st.crashed == some .runtime && sameAst r.1.st then k2 := k2 + 1
    else
      bad := bad + 1
      if bad ≤ 20 then
        IO.println (descr s0 ++ s!" hot={s0.buf.hot.total}")
        IO.println ("   -> " ++ summ r)
  IO.println s!"ok={ok} k2={k2} bad={bad} maxOver={maxOver}"

def hunt (n : Nat) (seed : Nat) : IO Unit := do
  let mut g : G := ⟨seed⟩
  let mut ok := 0
  let mut bad := 0
  for _ in [0:n] do
    let (s0, g') := genCfg g
    g := g'
    let r := SimState.runToCompletion {} 100000 400 0 (SimState.start s0)
    if r.1.st.isFinished && r.1.st.crashed.isNone then ok := ok + 1
    else
      bad := bad + 1
      if bad ≤ 40 then
        IO.println (descr s0)
        IO.println ("   -> " ++ summ r)
  IO.println s!"ok={ok} bad={bad}"

def run (s0 : Sys) (n : Nat := 300) : String :=
  summ (SimState.runToCompletion {} 100000 n 0 (SimState.start s0))
def ob (id est dur dem : Nat) (rate : Int) (ing : Nat) (wf : Workflow) : Obs :=
  { id := id, est := est, duration := dur, demand := dem, rate := rate, ingestDemand := ing, wf := wf }
def m1 : List Machine := [⟨0, 10, 2⟩]
def m2 : List Machine := [⟨0, 10, 2⟩, ⟨1, 5, 4⟩]
-- (c) K2 with pairwise distinct est
#eval run (mk m1 2 2 1000 1000 [ob 0 0 3 2 1 1 emptyW, ob 1 1 1 1 1 1 emptyW, ob 2 2 1 1 1 1 emptyW])
-- (a1) cyclic workflow
#eval run (mk m2 2 2 1000 1000 [ob 0 0 1 1 1 1 { nodes := [(0,10,0),(1,10,0)], edges := [(0,1,1),(1,0,1)], topo := [0,1] }])
-- (a2) edge from a node that is not in topo
#eval run (mk m2 2 2 1000 1000 [ob 0 0 1 1 1 1 { nodes := [(0,10,0),(1,10,0)], edges := [(7,1,1)], topo := [0,1] }])
-- (a3) topo not forward (1 before 0) with edge 0->1
#eval run (mk m2 2 2 1000 1000 [ob 0 0 1 1 1 1 { nodes := [(0,10,0),(1,10,0)], edges := [(0,1,1)], topo := [1,0] }])
-- (a4) duplicate node in topo
#eval run (mk m2 2 2 1000 1000 [ob 0 0 1 1 1 1 { nodes := [(0,10,0)], edges := [], topo := [0,0] }])
-- (a5) edge to a node not in topo
#eval run (mk m2 2 2 1000 1000 [ob 0 0 1 1 1 1 { nodes := [(0,10,0),(1,10,0)], edges := [(0,1,1),(0,9,1)], topo := [0,1] }])
-- (a6) self loop
#eval run (mk m2 2 2 1000 1000 [ob 0 0 1 1 1 1 { nodes := [(0,10,0)], edges := [(0,0,1)], topo := [0] }])
-- (b) H1 boundary: exactly 3/5
#eval run (mk m2 2 2 10 1000 [ob 0 0 3 1 2 1 (chain 2)])
-- (b') just above 3/5 -> K1a
#eval run (mk m2 2 2 10 1000 [ob 0 0 7 1 1 1 (chain 2)])
end Scr
