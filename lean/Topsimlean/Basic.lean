def hello := "world"
