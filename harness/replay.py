"""Block-level correspondence: every block of a real execution is replayed on
the Lean model (`Sys.resume`) and the canonical digests of the two states are
compared, together with what the block yielded and the processes it spawned."""
import json
from fractions import Fraction

import networkx as nx

from monitors import Listener
from leanio import Driver, rat
from runsim import fr

ERRNAMES = {"RuntimeError", "ValueError", "IndexError", "KeyError", "TypeError",
            "ZeroDivisionError", "AttributeError"}


class Maps:
    def __init__(self, sim):
        self.m = {m.id: i for i, m in enumerate(sim.cluster.machines)}
        self.o = {o.name: i for i, o in enumerate(sim.instrument.observations)}
        self.extra = {}

    def mid(self, machine):
        return self.m[machine.id if hasattr(machine, "id") else machine]

    def oid(self, name):
        if hasattr(name, "name"):
            name = name.name
        if name in self.o:
            return self.o[name]
        if name not in self.extra:
            self.extra[name] = 900 + len(self.extra)
        return self.extra[name]

    def tid(self, s):
        """task id string -> JSON tid"""
        for name, i in self.o.items():
            if s.startswith(name + "_ingest_t"):
                return ["i", i, int(s[len(name) + 9:])]
        for name, i in self.o.items():
            if s.startswith(name + "_"):
                rest = s[len(name) + 1:].split("_")
                if len(rest) == 2 and rest[0].lstrip("-").isdigit() and rest[1].isdigit():
                    return ["w", i, int(rest[0]), int(rest[1])]
        if s not in self.extra:
            self.extra[s] = 5000 + len(self.extra)
        return ["r", self.extra[s]]

    def tid_str(self, s):
        t = self.tid(s)
        if t[0] == "i":
            return "i%d.%d" % (t[1], t[2])
        if t[0] == "w":
            return "w%d.%d.%d" % (t[1], t[2], t[3])
        return "r%d" % t[1]

    def tid_key(self, s):
        t = self.tid(s)
        return ({"i": 0, "w": 1, "r": 2}[t[0]],) + tuple(t[1:])


def intlike(x):
    if isinstance(x, bool):
        return None
    if isinstance(x, int):
        return x
    if isinstance(x, float) and x == int(x):
        return int(x)
    try:
        import numpy as np
        if isinstance(x, np.integer):
            return int(x)
        if isinstance(x, np.floating) and float(x) == int(x):
            return int(x)
    except Exception:
        pass
    return None


def model_spec(h):
    """The parsed configuration as the model's `Sys` takes it (None when a
    quantity is not a whole number: outside the model's domain)."""
    sim = h.sim
    mp = Maps(sim)
    spec = h.spec

    def I(x):
        v = intlike(x)
        if v is None:
            raise ValueError("non-integral %r" % (x,))
        return v
    try:
        machines = [{"id": mp.m[m.id], "cpu": I(m.cpu), "bw": I(m.bandwidth)} for m in sim.cluster.machines]
        obs = []
        for o in sim.instrument.observations:
            with open(o.workflow) as f:
                wf = json.load(f)["graph"]
            g = nx.readwrite.node_link_graph(wf)
            nodes = [{"id": I(n), "comp": I(g.nodes[n]["comp"]), "task_data": I(g.nodes[n].get("task_data", 0))}
                     for n in g.nodes]
            ek = "edges" if "edges" in wf else "links"
            edges = [[I(e["source"]), I(e["target"]), I(e["transfer_data"])] for e in wf[ek]]
            topo = [I(n) for n in nx.algorithms.topological_sort(g)]
            obs.append({"id": mp.o[o.name], "start": I(o.est), "duration": I(o.duration),
                        "demand": I(o.demand), "rate": I(o.ingest_data_rate),
                        "ingest_demand": I(sim.instrument.pipelines[o.name]["ingest_demand"]),
                        "workflow": {"nodes": nodes, "edges": edges, "topo": topo}})
        hot, cold = sim.buffer.hot[0], sim.buffer.cold[0]
        s = spec["scheduling"]
        sched = {"kind": s["kind"] if s["kind"] != "adversary" else "oracle"}
        if s["kind"] == "batch":
            sched["partitions"] = s.get("partitions", 1)
            sched["min"] = s.get("min", 1)
            if s.get("split"):
                sched["split"] = [[mp.o[n], v[0], v[1]] for n, v in s["split"].items()]
        return {"machines": machines, "observations": obs,
                "total_arrays": I(sim.instrument.total_arrays), "max_ingest": I(sim.instrument.max_ingest),
                "scheduling": sched, "static": spec["planning"] == "static",
                "hot_cap": I(hot.total_capacity), "hot_rate": I(hot.max_ingest_data_rate),
                "cold_cap": I(cold.total_capacity), "cold_rate": I(cold.max_data_rate)}, mp
    except ValueError:
        return None, mp


def L(xs, f=str):
    return "[" + ",".join(f(x) for x in xs) + "]"


def B(b):
    return "T" if b else "F"


def showfr(x):
    v = fr(x)
    return str(v)


def opt(x):
    return "-" if x is None else str(x)


class Digest:
    def __init__(self, sim, mp, tracer):
        self.sim, self.mp, self.tr = sim, mp, tracer
        self.known_tasks = {}

    def note_tasks(self):
        for pid, info in self.tr.procs.items():
            if info["kind"] == "alloctask":
                t = info["args"][0]
                self.known_tasks[t.id] = t
        for o in self.sim.instrument.observations:
            if o.plan is not None:
                if o.plan.graph is not None:
                    for t in o.plan.graph.nodes:
                        if hasattr(t, "id"):
                            self.known_tasks[t.id] = t
                for t in o.plan.tasks:
                    self.known_tasks[t.id] = t

    def cluster(self):
        mp = self.mp
        cl = self.sim.cluster._clusters["default"]
        r = cl["resources"]
        ids = lambda l: L([mp.mid(m) for m in l])
        idle = L(["%d:%s" % (mp.oid(k), ids(v)) for k, v in r["idle"].items()])
        run = L([mp.tid_str(t.id) for t in cl["tasks"]["running"]])
        fin = L(["%s:%s" % (mp.tid_str(t.id), B(v)) for t, v in cl["tasks"]["finished"].items()])
        u = cl["usage_data"]
        return "av=%s in=%s oc=%s idle=%s run=%s fin=%s u=[%s,%s,%s,%s] np=%s" % (
            ids(r["available"]), ids(r["ingest"]), ids(r["occupied"]), idle, run, fin,
            u["available"], u["ingest"], u["running_tasks"], u["finished_tasks"],
            self.sim.cluster.num_provisioned_obs)

    def buffer(self):
        mp = self.mp
        b = self.sim.buffer
        hot, cold = b.hot[0], b.cold[0]
        names = lambda l: L([mp.oid(o) for o in l])
        tr = lambda x: "-" if x is None else str(mp.oid(x))
        sizes = sorted((mp.oid(o), fr(o.total_data_size)) for o in self.sim.instrument.observations
                       if o.total_data_size != 0)
        return ("hot=%s/%s hs=%s ht=%s hsch=%s hfin=%s cold=%s/%s cs=%s ct=%s dltt=%s st=%s sz=%s" % (
            showfr(hot.current_capacity), showfr(hot.total_capacity), names(hot.observations["stored"]),
            tr(hot.observations["transfer"]), names(hot.observations["scheduled"]),
            names(hot.observations["finished"]),
            showfr(cold.current_capacity), showfr(cold.total_capacity), names(cold.observations["stored"]),
            tr(cold.observations["transfer"]), showfr(b._data_left_to_transfer),
            L([showfr(x) for x in b.stored_times]), L(["%d:%s" % s for s in sizes])))

    def events(self, l):
        code = {("started", "telescope"): "ts", ("finished", "telescope"): "tf",
                ("added", "buffer"): "ba", ("removed", "buffer"): "br",
                ("added", "queue"): "qa", ("removed", "queue"): "qr",
                ("started", "allocation"): "as", ("stopped", "allocation"): "ao",
                ("started", "transfer"): "xs", ("stopped", "transfer"): "xo"}
        return L(["%s.%d.%s" % (e["time"], self.mp.oid(e["observation"]),
                                 code.get((e["event"], e["resource"]), "??")) for e in l])

    def sys(self, crashed="ok"):
        sim, mp = self.sim, self.mp
        self.note_tasks()
        tel = sim.instrument
        st = {"WAITING": "W", "RUNNING": "R", "FINISHED": "F"}
        obs = L(["%d:%s:%s" % (mp.oid(o.name), st[str(o.status.value)], opt(fr(o.ast))) for o in tel.observations])
        sch = sim.scheduler
        ts = {1: "U", 2: "S", 3: "R", 4: "F"}

        def task(t):
            return "%s:%s:%s:%s:%s:%s:%s" % (
                mp.tid_str(t.id), ts[t.task_status.value],
                "-" if t.ast == -1 else showfr(t.ast), "-" if t.aft == -1 else showfr(t.aft),
                showfr(t.duration), B(t.delay_flag), showfr(t.delay_offset))
        tasks = L([task(self.known_tasks[k]) for k in sorted(self.known_tasks, key=mp.tid_key)])
        df = sim.monitor.df
        if len(df):
            r = df.iloc[-1]
            last = ",".join(str(x) for x in [
                fr(r["available_resources"]), fr(r["ingest_resources"]), fr(r["running_tasks"]),
                fr(r["finished_tasks"]), fr(r["provisioned_observations"]), fr(r["hot_buffer"]),
                fr(r["cold_buffer"]), fr(r["stored"]), fr(r["observations_waiting"]),
                fr(r["observations_finished"]), fr(r["observations_delayed"]),
                fr(r["scheduler_observation_queue"]), B(r["schedule_status"] == "DELAYED"),
                fr(r["delay_offset"])])
        else:
            last = "-"
        return ("%s | %s | use=%s ts=%s obs=%s | q=%s pi=%s sd=%s do=%s | tasks=%s | ev=%s%s%s log=%d rows=%d last=%s | crashed=%s" % (
            self.cluster(), self.buffer(), tel.telescope_use, B(tel.telescope_status), obs,
            L([mp.oid(o.name) for o in sch.observation_queue]), sch.provision_ingest,
            B(sch.schedule_status.value == "DELAYED"), showfr(sch.delay_offset), tasks,
            self.events(tel.events), self.events(sch.events), self.events(sim.buffer.events),
            len(sim.monitor.events), len(df), last, crashed))


class ModelReplay(Listener):
    """Replays every block on the Lean model and diffs the digests."""

    def __init__(self, stop_on_first=True):
        self.drv = None
        self.diffs = []
        self.blocks = 0
        self.skipped = None
        self.stop_on_first = stop_on_first
        self.calc_total = {}
        self.samples = []
        self.first_crash = None

    def attach(self, handle, tracer):
        super().attach(handle, tracer)
        ms, mp = model_spec(handle)
        self.mp = mp
        if ms is None:
            self.skipped = "non-integral configuration (outside the model's domain)"
            return
        self.dg = Digest(self.sim, mp, tracer)
        self.drv = Driver()
        out = self.drv.ask({"op": "init", "spec": ms, "start": True})
        self.init_digest = out
        self.pending_spawn_check = []
        adv = handle.scheduling
        self.adv = adv if hasattr(adv, "proposals") else None
        self.adv_seen = 0
        if self.adv is not None:
            self._wrap_adv_cluster()

    def on_calc(self, task, duration, result):
        self.calc_total[task.id] = result

    def _wrap_adv_cluster(self):
        # the adversary's own reservations are oracle inputs of the model
        cl = self.sim.cluster
        me = self
        self.adv_pre = []
        op = cl.provision_batch_resources
        orl = cl.release_batch_resources

        def prov(size, name, c="default"):
            if name == "__foreign__" or getattr(cl, "_adv_call", False):
                me.adv_pre.append({"c": "provBatch", "size": size, "o": me.mp.oid(name)})
            return op(size, name, c)

        def rel(observation, c="default"):
            if observation == "__foreign__":
                me.adv_pre.append({"c": "relBatch", "o": me.mp.oid(observation)})
            return orl(observation, c)
        cl.provision_batch_resources = prov
        cl.release_batch_resources = rel

    def on_begin(self, pid, info):
        if self.drv is None:
            return
        self._now = self.sim.env.now

    def on_end(self, pid, info, outcome):
        if self.drv is None or (self.diffs and self.stop_on_first):
            return
        self.blocks += 1
        kind = info["kind"]
        cmd = {"op": "resume", "pid": pid, "now": rat(self._now)}
        if kind == "dowork":
            t = info["obj"]
            if t.id in self.calc_total:
                tot = self.calc_total[t.id]
                v = intlike(tot)
                if v is not None and v >= 0:
                    cmd["total"] = v
        if kind == "alloctasks" and self.adv is not None:
            new = self.adv.proposals[self.adv_seen:]
            self.adv_seen = len(self.adv.proposals)
            cmd["proposals"] = [[self.mp.tid(t), self.mp.m[m]] for (_, _, t, m) in new]
            cmd["pre"] = self.adv_pre
            self.adv_pre = []
        if kind == "schedloop" and self.h.spec["planning"] == "static":
            q = self.sim.scheduler.observation_queue
            rows = []
            for o in q:
                if o.plan is not None and getattr(o, "_verif_planned", None) is not o.plan:
                    o._verif_planned = o.plan
                    for t in o.plan.tasks:
                        rows.append([int(t.graph_id), self.mp.m[t.allocated_machine_id], int(t.est), int(t.eft)])
            cmd["plan"] = rows
        if outcome[0] == "yield":
            v = outcome[1]
            d = getattr(v, "_delay", None)
            y = ("timeout %s" % showfr(d)) if d is not None else "wait-for-process"
            crashed = "ok"
        elif outcome[0] == "end":
            y = "done"
            crashed = "ok"
        else:
            n = type(outcome[1]).__name__
            n = n if n in ERRNAMES else "Other"
            y = "raise %s" % n
            if self.first_crash is None:
                self.first_crash = n
        if self.first_crash is not None:
            crashed = self.first_crash
        want = "%s wake=T nextpid=%d || %s" % (y, self.tr.next_pid, self.dg.sys(crashed))
        got = self.drv.ask(cmd)
        if len(self.samples) < 3:
            self.samples.append({"cmd": cmd, "model": got[:300]})
        if got != want:
            self.diffs.append({"block": self.blocks, "pid": pid, "kind": kind, "time": fr(self._now),
                               "cmd": cmd, "impl": want, "model": got,
                               "where": first_diff(want, got)})

    def finish(self, rec):
        if self.drv is not None:
            self.drv.close()
        rec["replay"] = {"blocks": self.blocks, "diffs": self.diffs[:3], "skipped": self.skipped,
                         "samples": self.samples}


def first_diff(a, b):
    fa, fb = a.split(" "), b.split(" ")
    for i in range(min(len(fa), len(fb))):
        if fa[i] != fb[i]:
            return {"impl": fa[i][:200], "model": fb[i][:200]}
    return {"impl": "len %d" % len(fa), "model": "len %d" % len(fb)}
