"""Per-property configuration of the checks: which Lean modules carry the
theorems, which correspondence slices and monitor streams decide it."""

# streams: (name, quick count, thorough count)
PROPS = {
    "C01": {
        "title": "A machine never executes two tasks at once",
        "lean": ["TopsimProps.C02", "TopsimProps.SysSafety", "TopsimProofs.Bridge.Queries", "TopsimProps.L3", "TopsimProps.C01Intervals"],
        "streams": [("default", 24, 300), ("adversary", 24, 400), ("chaotic", 24, 400), ("clusterops", 30, 600), ("big", 6, 80), ("contended", 16, 300)],
        "monitor": ["C01"],
        "files": ["topsim/core/scheduler.py", "topsim/core/cluster.py", "topsim/core/task.py"],
    },
    "C02": {
        "title": "Every machine is in exactly one resource pool; counts are true",
        "lean": ["TopsimProps.C02", "TopsimProps.SysSafety", "TopsimProps.L3"],
        "streams": [("default", 24, 300), ("adversary", 16, 300), ("chaotic", 24, 400), ("clusterops", 40, 1200), ("big", 6, 80), ("units", 6, 80), ("batch", 32, 300)],
        "monitor": ["C02"],
    },
    "C03": {
        "title": "Workflow precedence and data-transfer waits are respected",
        "lean": ["TopsimProps.C03", "TopsimProofs.Bridge.Runtime", "TopsimProps.C03Traj", "TopsimProps.L3Order", "TopsimProps.C03Cross"],
        "streams": [("default", 40, 600), ("contended", 16, 300), ("big", 6, 80), ("units", 8, 100), ("batch", 24, 300), ("delays", 16, 300), ("joinrace", 16, 200)],
        "direct": ["c06"],
        "monitor": ["C03"],
    },
    "C04": {
        "title": "Everything runs exactly once and a completed run is quiescent",
        "lean": ["TopsimProps.SysSafety", "TopsimProps.C04", "TopsimProps.C19", "TopsimProofs.Bridge.Queries", "TopsimProps.L3", "TopsimProps.C04Witness", "TopsimProps.C04Table", "TopsimProps.C04Oracle"],
        "streams": [("default", 32, 500), ("adversary", 24, 400), ("chaotic", 16, 300), ("edge", 22, 300), ("hotwait", 12, 200), ("batch", 12, 200), ("fracunits", 12, 150)],
        "monitor": ["C04"],
    },
    "C05": {
        "title": "Every feasible configuration terminates",
        "lean": ["TopsimProps.C05", "TopsimProofs.Bridge.Admission", "TopsimProofs.Bridge.BufferArith", "TopsimProofs.Bridge.Sched", "TopsimProps.C05Live", "TopsimProps.C05LiveBatch", "TopsimProps.C05LivePlan", "TopsimProps.C05Bound", "TopsimProps.C05BoundDelay", "TopsimProps.C05BoundBatch", "TopsimProps.C05BoundPlan", "TopsimProps.C05BoundDelayAll", "TopsimProps.C08Promised"],
        "streams": [("feasible", 40, 800), ("tiering", 16, 200), ("samestep", 12, 150), ("edge", 32, 600), ("hotwait", 12, 200), ("fracunits", 12, 150)],
        "monitor": ["C05"],
    },
    "C06": {
        "title": "Task runtime equals work over machine speed, at least one step",
        "lean": ["TopsimProps.C06", "TopsimProofs.Bridge.Runtime", "TopsimProps.C06Traj"],
        "streams": [("default", 20, 300), ("units", 10, 150), ("big", 4, 60), ("fracunits", 12, 150)],
        "direct": ["c06"],
        "monitor": ["C06"],
    },
    "C07": {
        "title": "Buffer space is conserved and never over- or under-flows",
        "lean": ["TopsimProps.C07", "TopsimProofs.Bridge.BufferArith", "TopsimProofs.Bridge.TierArith", "TopsimProofs.Bridge.Sched", "TopsimProofs.Bridge.Admission", "TopsimProps.C07Traj", "TopsimProps.C07Freed"],
        "streams": [("default", 32, 500), ("sequential", 16, 200), ("overcommit", 8, 60), ("edge", 40, 400), ("hotwait", 8, 100), ("tiering", 8, 100), ("tierback", 8, 100), ("fracunits", 12, 150)],
        "direct": ["c18"],
        "monitor": ["C07"],
    },
    "C08": {
        "title": "Observations start only when all resources are free, and on time when idle",
        "lean": ["TopsimProps.C08", "TopsimProps.C08Traj", "TopsimProofs.Bridge.Admission", "TopsimProofs.Bridge.Sched", "TopsimProps.C08Sim", "TopsimProps.C08Promised", "TopsimProps.C08Transit"],
        "streams": [("default", 40, 600), ("contended", 16, 300), ("idlestart", 12, 150), ("edge", 32, 600), ("hotwait", 12, 200), ("fracunits", 12, 150)],
        "monitor": ["C08"],
    },
    "C09": {
        "title": "Batch reservations are exclusive, bounded and released",
        "lean": ["TopsimProps.C09", "TopsimProps.C02", "TopsimProofs.Bridge.Batch", "TopsimProps.C09Traj"],
        "streams": [("batch", 40, 600), ("chaotic-batch", 16, 300), ("clusterops", 20, 400), ("big", 8, 100)],
        "monitor": ["C09"],
    },
    "C10": {
        "title": "Simulations are reproducible",
        "lean": ["TopsimProps.C10", "TopsimProps.Kernel"],
        "streams": [("runlevel", 24, 400)],
        "direct": ["c10"],
        "monitor": ["C10"],
    },
    "C11": {
        "title": "Pausing and resuming is transparent",
        "lean": ["TopsimProps.Kernel", "TopsimProps.Pause"],
        "streams": [("runlevel-paused", 20, 300)],
        "direct": ["c11"],
        "monitor": ["C11"],
    },
    "C12": {
        "title": "The per-timestep table reports the true state, one row per step",
        "lean": ["TopsimProps.C12", "TopsimProps.SysSafety", "TopsimProps.Pause", "TopsimProps.C12Traj"],
        "streams": [("default", 32, 500), ("overlap", 16, 300), ("runlevel", 16, 300), ("tierback", 12, 200), ("tiering", 8, 150), ("units", 6, 80), ("big", 4, 60), ("edge", 22, 200)],
        "direct": ["c11"],
        "monitor": ["C12"],
    },
    "C13": {
        "title": "The event log is complete, correctly timed and causally ordered",
        "lean": ["TopsimProps.C13", "TopsimProps.Kernel", "TopsimProps.C13Traj", "TopsimProps.L3Order"],
        "streams": [("default", 32, 500), ("overlap", 16, 300), ("runlevel", 16, 300), ("runlevel-paused", 24, 400), ("edge", 24, 400)],
        "monitor": ["C13"],
    },
    "C14": {
        "title": "A generated plan is a faithful copy of the workflow graph",
        "lean": ["TopsimProps.C14", "TopsimProofs.Bridge.Plan", "TopsimProps.C14Traj"],
        "streams": [("default", 12, 150), ("contended", 8, 100), ("units", 8, 100)],
        "direct": ["c14"],
        "monitor": ["C14"],
    },
    "C15": {
        "title": "The delay model only lengthens, deterministically, and is reported",
        "lean": ["TopsimProps.C15", "TopsimProps.C15Traj"],
        "streams": [("delays", 24, 300)],
        "direct": ["c15", "c06"],
        "monitor": ["C15"],
    },
    "C16": {
        "title": "Timestep units rescale every time-dependent quantity consistently",
        "lean": ["TopsimProps.C16", "TopsimProofs.Bridge.Config", "TopsimProps.C18RealTime"],
        "streams": [("units", 10, 150)],
        "direct": ["c16"],
        "monitor": ["C16"],
    },
    "C17": {
        "title": "Plan-following scheduling keeps every task on its planned machine",
        "lean": ["TopsimProps.C17", "TopsimProps.C17Traj", "TopsimProps.C17Waits"],
        "streams": [("dynamic", 40, 600), ("chaotic-dynamic", 12, 200), ("big", 6, 80), ("dynamic-reuse", 12, 200), ("joinrace", 16, 200)],
        "monitor": ["C17"],
    },
    "C18": {
        "title": "Moving an observation between buffer tiers conserves data",
        "lean": ["TopsimProps.C18", "TopsimProofs.Bridge.BufferArith", "TopsimProofs.Bridge.TierArith", "TopsimProofs.Bridge.Admission", "TopsimProps.C07Traj", "TopsimProps.C18RealTime"],
        "streams": [("tiering", 10, 150), ("tierback", 10, 150)],
        "direct": ["c18"],
        "monitor": ["C18"],
    },
    "C19": {
        "title": "Idle/empty/finished queries tell the truth",
        "lean": ["TopsimProps.C19", "TopsimProofs.Bridge.Queries", "TopsimProps.C19Windows"],
        "streams": [("default", 24, 300), ("chaotic", 12, 200), ("clusterops", 20, 400), ("tiering", 10, 150), ("tierback", 8, 100), ("shutdown", 12, 150), ("edge", 22, 200), ("fracunits", 12, 150)],
        "monitor": ["C19"],
    },
}

DIRECT_N = {  # (quick, thorough)
    "c06": (150, 3000), "c14": (60, 1500), "c15": (0, 0), "c16": (80, 2000), "c18": (80, 2000),
    "c10": (18, 120), "c11": (8, 32),
}
