"""Build and run a real topsim Simulation from a spec, under the block tracer."""
import os
import sys
import traceback
from fractions import Fraction

os.environ.setdefault("TQDM_DISABLE", "1")
os.environ.setdefault("TOPSIM_VERIF", "1")
REPO = os.environ.get("TOPSIM_REPO", "/repo")
if REPO not in sys.path:
    sys.path.insert(0, REPO)
HERE = os.path.dirname(os.path.abspath(__file__))
if HERE not in sys.path:
    sys.path.insert(0, HERE)

import warnings
warnings.filterwarnings("ignore", category=SyntaxWarning)
import logging
logging.disable(logging.CRITICAL)

import simpy  # noqa: E402

import simgen  # noqa: E402
import tracer as tracer_mod  # noqa: E402


def fr(x):
    """Exact canonical form of a number (never compare floats as text)."""
    if x is None:
        return None
    if isinstance(x, bool):
        return x
    if isinstance(x, int):
        return x
    if isinstance(x, float):
        if x != x or x in (float("inf"), float("-inf")):
            return str(x)
        f = Fraction(x)
        return int(f) if f.denominator == 1 else "%d/%d" % (f.numerator, f.denominator)
    try:
        import numpy as np
        if isinstance(x, np.integer):
            return int(x)
        if isinstance(x, np.floating):
            return fr(float(x))
    except Exception:
        pass
    return str(x)


def build_algorithms(spec, shared=None):
    import planning as hp
    from topsim.core.delay import DelayModel
    from topsim.user.plan.batch_planning import BatchPlanning
    from topsim.user.schedule.batch_allocation import BatchProcessing
    from topsim.user.schedule.queue_allocation import QueueProcessing
    from topsim.user.schedule.dynamic_plan import DynamicSchedulingFromPlan
    from topsim.user.schedule.greedy import GreedySchedulingFromPlan

    d = spec.get("delay")
    delay = None
    if shared is not None and "delay" in shared:
        delay = shared["delay"]           # a sweep script that builds its DelayModel once
        d = None
    if d:
        if "script" in d:
            delay = hp.ScriptedDelay(d["script"])
        elif "script_seed" in d:
            delay = hp.ScriptedDelay(hp.make_script(d["script_seed"], d["p"], d["max"]))
        else:
            delay = DelayModel(d["prob"], d.get("dist", "normal"),
                               DelayModel.DelayDegree[d["degree"]], seed=d.get("seed", 20))
    if shared is not None and delay is not None and "script" not in str(type(delay)).lower():
        shared.setdefault("delay", delay)
    if spec["planning"] == "batch":
        plan = BatchPlanning("batch", delay)
    else:
        plan = hp.StaticPlanning("static", delay, seed=spec.get("static_seed", 0),
                                 assign=spec.get("static_plan"),
                                 sort_by_est=not spec.get("static_unsorted", False),
                                 slack=spec.get("static_slack", 0))
    s = spec["scheduling"]
    k = s["kind"]
    if shared is not None and shared.get("sched") is not None:
        # the same algorithm object handed to a second Simulation (a sweep script)
        return plan, shared["sched"], delay
    if k == "batch":
        split = s.get("split")
        if split:
            split = {n: tuple(v) for n, v in split.items()}
        sched = BatchProcessing(max_resource_partitions=s.get("partitions", 1),
                                min_resources_per_workflow=s.get("min", 1),
                                resource_split=split)
    elif k == "queue":
        sched = QueueProcessing()
    elif k == "dynamic":
        sched = DynamicSchedulingFromPlan()
    elif k == "greedy":
        sched = GreedySchedulingFromPlan()
    elif k == "adversary":
        sched = hp.Adversary(s.get("mode", "random"), s.get("seed", 0))
    else:
        raise ValueError(k)
    if shared is not None and shared.get("share_sched"):
        shared["sched"] = sched
    return plan, sched, delay


class SimHandle:
    """A constructed simulation + where its files live."""

    def __init__(self, spec, env=None, keep=False, shared=None):
        from topsim.core.simulation import Simulation
        from topsim.user.telescope import Telescope
        self.spec = spec
        self.dir = simgen.workdir("sim")
        self.cfg = simgen.write_case(spec, self.dir)
        self.env = env if env is not None else simpy.Environment()
        plan, sched, delay = build_algorithms(spec, shared)
        self.planning, self.scheduling, self.delay = plan, sched, delay
        self.sim = Simulation(self.env, self.cfg, Telescope, plan, None, sched,
                              delay=delay, timestamp=0)

    def close(self):
        simgen.rm_workdir(self.dir)


def all_tasks(sim):
    """Every Task object the simulation knows about (id -> task)."""
    out = {}
    cl = sim.cluster._clusters["default"]
    for t in cl["tasks"]["running"]:
        out[t.id] = t
    for t in cl["tasks"]["finished"]:
        out[t.id] = t
    for o in sim.instrument.observations:
        if o.plan is not None:
            for t in o.plan.tasks:
                out[t.id] = t
            if o.plan.graph is not None:
                for t in o.plan.graph.nodes:
                    if hasattr(t, "id"):
                        out[t.id] = t
    return out


def outputs(sim, df=None):
    """The three user-visible outputs in canonical exact form."""
    mdf = sim.monitor.df
    rows = []
    cols = [c for c in mdf.columns if not str(c).endswith("-algtime") and c != "config"]
    for _, r in mdf.iterrows():
        rows.append({c: fr(r[c]) for c in cols})
    ev = []
    evdf = sim.monitor.events
    if len(evdf):
        for _, r in evdf.iterrows():
            ev.append([fr(r["time"]), str(r["actor"]), str(r["observation"]),
                       str(r["event"]), str(r["resource"])])
    tasks = {}
    fin = sim.cluster._clusters["default"]["tasks"]["finished"]
    finflag = {t.id: bool(v) for t, v in fin.items()}
    order = []
    # the task table as the user gets it (Simulation._generate_final_task_data)
    tdf = sim._generate_final_task_data()
    for tid, r in tdf.iterrows():
        order.append(str(tid))
        tasks[str(tid)] = {"ast": fr(r["ast"]), "aft": fr(r["aft"]), "est": fr(r["est"]),
                           "eft": fr(r["eft"]), "offset": fr(r["workflow_offset"]),
                           "finished": finflag.get(str(tid), False)}
    # and the truth held on the task objects
    truth = {t.id: {"ast": fr(t.ast), "aft": fr(t.aft)} for t in fin}
    return {"rows": rows, "events": ev, "tasks": tasks, "task_order": order, "task_truth": truth}


def run_spec(spec, listeners=(), until=None, resume=None, max_steps=None, env=None, shared=None, between=None):
    """Run `spec` on the real code.  Returns a record dict; never raises for
    exceptions of the simulation itself (they are recorded)."""
    h = SimHandle(spec, env=env, shared=shared)
    tr = tracer_mod.Tracer()
    for l in listeners:
        l.attach(h, tr)
        tr.listeners.append(l)
    rec = {"exception": None, "end": None, "nonterminated": False, "until": until}
    from topsim.core.task import Task
    orig_calc = Task._calc_task_delay

    def calc(self_task):
        r = orig_calc(self_task)
        for l in listeners:
            if hasattr(l, "on_calc"):
                l.on_calc(self_task, self_task.duration, r)
        return r
    Task._calc_task_delay = calc
    try:
        with tracer_mod.tracing(tr):
            sim = h.sim
            try:
                if until is not None:
                    sim.start(runtime=until)
                    if between is not None:
                        between(sim)           # a call of the public API at the pause point
                    for u in (resume or []):
                        sim.resume(until=u)
                else:
                    # same loop as Simulation.start(-1) but with a step limit,
                    # so that a non-terminating run is reported, not hung
                    if max_steps is None:
                        sim.start()
                    else:
                        orig = sim.is_finished
                        lim = {"n": 0}

                        def guarded():
                            lim["n"] += 1
                            if lim["n"] > max_steps:
                                rec["nonterminated"] = True
                                return True
                            return orig()
                        sim.is_finished = guarded
                        try:
                            sim.start()
                        finally:
                            sim.is_finished = orig
            except BaseException as e:   # noqa
                # SimPy re-raises a copy whose __cause__ is the original
                frames = []
                x = e
                seen = 0
                while x is not None and seen < 6:
                    frames = list(traceback.extract_tb(x.__traceback__)) + frames \
                        if False else frames + list(traceback.extract_tb(x.__traceback__))
                    x = x.__cause__
                    seen += 1
                where = [(os.path.relpath(f.filename, REPO), f.lineno, f.name)
                         for f in frames if f.filename.startswith(REPO)]
                rec["exception"] = {"type": type(e).__name__, "msg": str(e)[:200],
                                    "where": where[-1] if where else None,
                                    "stack": where[-4:]}
        rec["end"] = fr(h.env.now)
        try:
            rec["out"] = outputs(h.sim)
        except Exception as e:   # noqa
            rec["out"] = None
            rec["out_error"] = repr(e)
        rec["final"] = None
        for l in listeners:
            l.finish(rec)
    finally:
        Task._calc_task_delay = orig_calc
        rec["nprocs"] = tr.next_pid
        h.close()
    return rec
