"""Op-level correspondence for Cluster: random operation histories (the `ClOp`
alphabet of the Lean model, including refused and adversarial calls) applied to
the real Cluster object — its generators driven block by block on a FakeEnv —
and to the Lean model, comparing the canonical state after every operation."""
import random

import runsim  # noqa
import simgen
from fakeenv import FakeEnv, FakeProcess
from leanio import Driver
from replay import Maps, L, B

ERRNAMES = {"RuntimeError", "ValueError", "IndexError", "KeyError", "TypeError",
            "ZeroDivisionError", "AttributeError"}


class Obs:
    def __init__(self, name, duration):
        self.name = name
        self.duration = duration


def cluster_digest(cluster, mid, oid, tid):
    cl = cluster._clusters["default"]
    r = cl["resources"]
    ids = lambda l: L([mid[m.id] for m in l])
    idle = L(["%d:%s" % (oid(k), ids(v)) for k, v in r["idle"].items()])
    run = L([tid(t.id) for t in cl["tasks"]["running"]])
    fin = L(["%s:%s" % (tid(t.id), B(v)) for t, v in cl["tasks"]["finished"].items()])
    u = cl["usage_data"]
    return "av=%s in=%s oc=%s idle=%s run=%s fin=%s u=[%s,%s,%s,%s] np=%s" % (
        ids(r["available"]), ids(r["ingest"]), ids(r["occupied"]), idle, run, fin,
        u["available"], u["ingest"], u["running_tasks"], u["finished_tasks"], cluster.num_provisioned_obs)


def run_case(seed, props):
    from topsim.core.cluster import Cluster
    from topsim.core.config import Config
    from topsim.core.task import Task
    rng = random.Random("clusterops-%s" % seed)
    nm = rng.randint(1, 5)
    spec = {"machines": [{"id": "m%d" % i, "flops": 10, "bw": 2} for i in range(nm)], "system_bandwidth": 1,
            "total_arrays": 4, "max_ingest": 2,
            "observations": [{"name": "a", "start": 0, "duration": 2, "demand": 1, "rate": 1, "ingest_demand": 1,
                              "workflow": {"nodes": [{"id": 0, "comp": 10}], "edges": []}}],
            "hot": {"capacity": 100, "rate": 5}, "cold": {"capacity": 100, "rate": 5}, "timestep": "seconds"}
    d = simgen.workdir("clops")
    out = {"stream": "clusterops", "seed": seed, "violations": [], "replay": {"blocks": 0, "diffs": [], "skipped": None, "samples": []},
           "features": {}, "spec": None, "ops": []}
    drv = Driver()
    try:
        env = FakeEnv(policy="simpy")
        cluster = Cluster(env, Config(simgen.write_case(spec, d)))
        mid = {m.id: i for i, m in enumerate(cluster.machines)}
        machines = list(cluster.machines)
        onames = {"o%d" % i: i for i in range(4)}
        oid = lambda k: onames[k if isinstance(k, str) else k.name]

        def tid(s):
            if "_ingest_t" in s:
                n, i = s.split("_ingest_t")
                return "i%d.%s" % (onames[n], i)
            return "r%s" % s[1:]
        drv.ask({"op": "clinit", "machines": list(range(nm))})
        pending = []     # (proc, task, machine, obsname)
        runon = []       # (alloc proc, dowork proc, task, machine, obsname, ing)
        used_obs = set()
        ntask = 0
        nops = rng.randint(5, 60)
        feats = {"refused": 0, "alloc_busy": 0, "alloc_reserved": 0, "alloc_foreign": 0, "alloc_ingest": 0,
                 "alloc_free": 0, "finish": 0, "provision": 0, "release": 0, "ingest": 0}
        ops_log = []

        def step_proc(p):
            """run exactly one block of process p on the FakeEnv"""
            ent = [e for e in env.queue if e[3] is p]
            if not ent:
                return ("dead", None)
            env.queue.remove(ent[0])
            env._now = max(env._now, ent[0][0])       # time passes up to the event that is being processed
            before = len(env.queue)
            try:
                v = p.gen.send(getattr(p, "_send", None))
            except StopIteration as e:
                env.on_end(p, e.value)
                return ("done", e.value)
            except BaseException as e:   # noqa
                p.triggered = True
                return ("raise", e)
            env.after_yield(p, v)
            return ("yield", v)

        def new_procs(before):
            return [e[3] for e in env.queue if e[3] not in before]

        for k in range(nops):
            cl = cluster._clusters["default"]
            kind = rng.random()
            cmd = None
            impl_err = "ok"
            pre_pools = cluster_digest(cluster, mid, oid, tid)
            if kind < 0.12:
                size, o = rng.randint(0, nm + 1), rng.choice(list(onames))
                cmd = {"c": "provBatch", "size": size, "o": onames[o]}
                try:
                    cluster.provision_batch_resources(size, o)
                    feats["provision"] += 1
                except Exception as e:   # noqa
                    impl_err = type(e).__name__
            elif kind < 0.22:
                o = rng.choice(list(onames))
                cmd = {"c": "relBatch", "o": onames[o]}
                cluster.release_batch_resources(o)
                feats["release"] += 1
            elif kind < 0.34:
                cand = [o for o in onames if o not in used_obs]
                if not cand:
                    continue
                o = rng.choice(cand)
                used_obs.add(o)
                dmd = rng.randint(0, nm + 1)
                cmd = {"c": "provIngest", "demand": dmd, "o": onames[o]}
                before = set(e[3] for e in env.queue)
                p = env.process(cluster.provision_ingest_resources(dmd, Obs(o, rng.randint(1, 3))))
                avail_before = list(cl["resources"]["available"])
                r = step_proc(p)
                if r[0] == "raise":
                    impl_err = type(r[1]).__name__
                else:
                    feats["ingest"] += 1
                    news = [q for q in new_procs(before) if q is not p]
                    for i, q in enumerate(news):
                        pending.append((q, "%s_ingest_t%d" % (o, i), avail_before[i], o))
            elif kind < 0.46 and pending:
                i = rng.randrange(len(pending))
                cmd = {"c": "ingestBegin", "i": i}
                (q, tname, m, o) = pending[i]
                before = set(e[3] for e in env.queue)
                r = step_proc(q)
                if r[0] == "raise":
                    impl_err = type(r[1]).__name__
                else:
                    pending.pop(i)
                    dw = [x for x in new_procs(before) if x is not q]
                    runon.append((q, dw[0] if dw else None, tname, m, o, True))
            elif kind < 0.78:
                ntask += 1
                t = Task("r%d" % ntask, 0, rng.randint(1, 3), None, [])
                m = rng.choice(machines)
                o = rng.choice([None] + list(onames))
                cv = cl["resources"]
                where = ("free" if m in cv["available"] else "ingest" if m in cv["ingest"] else
                         "busy" if m in cv["occupied"] else
                         "reserved" if (o in cv["idle"] and m in cv["idle"][o]) else "foreign")
                feats["alloc_" + where] += 1
                cmd = {"c": "alloc", "t": ["r", ntask], "m": mid[m.id], "obs": (onames[o] if o else None)}
                before = set(e[3] for e in env.queue)
                q = env.process(cluster.allocate_task_to_cluster(t, m, None, o))
                r = step_proc(q)
                if r[0] == "raise":
                    impl_err = type(r[1]).__name__
                    feats["refused"] += 1
                    if cluster_digest(cluster, mid, oid, tid) != pre_pools:
                        out["violations"].append({"prop": "C02", "kind": "refused-call-changed-pools", "sig": "refused-call-changed-pools",
                                                  "detail": "%s -> %s" % (pre_pools, cluster_digest(cluster, mid, oid, tid))})
                    if where in ("free", "reserved"):
                        out["violations"].append({"prop": "C02", "kind": "eligible-allocation-refused", "sig": "eligible-allocation-refused",
                                                  "detail": "%s on %s (%s)" % (t.id, m.id, where)})
                else:
                    if where not in ("free", "reserved"):
                        for pr in ("C01", "C02", "C09"):
                            out["violations"].append({"prop": pr, "kind": "task-accepted-on-ineligible-machine",
                                                      "sig": "task-accepted-on-ineligible-machine",
                                                      "detail": "%s on %s which was %s" % (t.id, m.id, where)})
                    dw = [x for x in new_procs(before) if x is not q]
                    runon.append((q, dw[0] if dw else None, t.id, m, o, False))
            elif kind < 0.93 and runon:
                i = rng.randrange(len(runon))
                cmd = {"c": "finish", "i": i}
                (q, dw, tname, m, o, ing) = runon[i]
                # let the task body run to its end, then the allocation process polls
                guard = 0
                while dw is not None and not dw.triggered and guard < 50:
                    step_proc(dw)
                    guard += 1
                r = step_proc(q)
                guard = 0
                while r[0] == "yield" and dw is not None and dw.triggered and guard < 4:
                    # the body has ended but its recorded finish time is not reached yet: the poll re-arms
                    # (changing nothing) until `now >= task.aft`
                    r = step_proc(q)
                    guard += 1
                if r[0] == "raise":
                    impl_err = type(r[1]).__name__
                elif r[0] == "done":
                    runon.pop(i)
                    feats["finish"] += 1
                else:
                    impl_err = "still-polling"
            elif kind < 0.97:
                cmd = {"c": "tick"}
                g = cluster.run()
                next(g)
            else:
                cmd = {"c": "cleanupIngest"}
                cluster.clean_up_ingest()
            if cmd is None:
                continue
            if impl_err not in ERRNAMES and impl_err not in ("ok", "still-polling"):
                impl_err = "Other"
            got = drv.ask(dict(cmd, op="clop"))
            want = "%s || %s" % (impl_err, cluster_digest(cluster, mid, oid, tid))
            out["replay"]["blocks"] += 1
            ops_log.append(cmd)
            if got != want and not out["replay"]["diffs"]:
                out["replay"]["diffs"].append({"block": k, "kind": "clop", "cmd": cmd, "impl": want, "model": got,
                                               "where": {"impl": want[:200], "model": got[:200]}, "ops": list(ops_log)})
            # monitors (C02 / C01 / C19) directly on the real object
            cv = cl["resources"]
            pools = [x.id for x in cv["available"]] + [x.id for x in cv["ingest"]] + [x.id for x in cv["occupied"]] + \
                    [x.id for l in cv["idle"].values() for x in l]
            if sorted(pools) != sorted(mid):
                out["violations"].append({"prop": "C02", "kind": "pools-not-a-partition", "sig": "pools-not-a-partition",
                                          "detail": str(pools)})
            u = cl["usage_data"]
            if u["running_tasks"] != len(cl["tasks"]["running"]) or \
                    u["available"] != nm - len(cl["tasks"]["running"]) or \
                    u["finished_tasks"] != sum(1 for v in cl["tasks"]["finished"].values() if v):
                out["violations"].append({"prop": "C02", "kind": "counts-wrong", "sig": "counts-wrong", "detail": str(u)})
            held = [m_.id for (_, _, _, m_, _, _) in runon]
            if len(held) != len(set(held)):
                out["violations"].append({"prop": "C01", "kind": "two-bodies-on-machine", "sig": "two-bodies-on-machine",
                                          "detail": str(held)})
            truth = not cl["tasks"]["running"] and not cv["occupied"] and not cv["ingest"]
            if bool(cluster.is_idle()) != truth:
                out["violations"].append({"prop": "C19", "kind": "cluster-is_idle-wrong", "sig": "cluster-is_idle-wrong",
                                          "detail": ""})
            for m_ in machines:
                if bool(cluster.is_occupied(m_)) != (m_ in cv["occupied"] or m_ in cv["ingest"]):
                    out["violations"].append({"prop": "C19", "kind": "is_occupied-wrong", "sig": "is_occupied-wrong", "detail": m_.id})
        out["features"] = feats
        out["ops"] = ops_log[:40]
        out["replay"]["samples"] = ops_log[:3]
        return out
    finally:
        drv.close()
        simgen.rm_workdir(d)
