"""Case specifications for topsim simulations: spec -> files on disk, and the
random generators (one PRNG, every choice derived from it).

A *spec* is a plain JSON-able dict (see `example_spec`).  All quantities are
whole numbers by default so that Python floats are exact.
"""
import json
import os
import random
import shutil
import tempfile

WORK_ROOT = os.environ.get("TOPSIM_VERIF_WORK") or os.path.join(
    os.path.dirname(os.path.dirname(os.path.abspath(__file__))), ".work")


def workdir(tag="case"):
    os.makedirs(WORK_ROOT, exist_ok=True)
    return tempfile.mkdtemp(prefix=tag + "-", dir=WORK_ROOT)


def rm_workdir(d):
    shutil.rmtree(d, ignore_errors=True)


def wf_to_nodelink(wf):
    """Workflow spec -> the JSON that BatchPlanning._workflow_to_nx reads
    (produced with the installed networkx so node_link_graph accepts it)."""
    import networkx as nx
    g = nx.DiGraph()
    for n in wf["nodes"]:
        attrs = {"comp": n["comp"]}
        if "task_data" in n:
            attrs["task_data"] = n["task_data"]
        g.add_node(n["id"], **attrs)
    for (u, v, d) in wf["edges"]:
        g.add_edge(u, v, transfer_data=d)
    return {"graph": nx.node_link_data(g)}


def write_case(spec, d):
    """Write config + workflow files of `spec` into directory d; return config path."""
    pipelines = {}
    observations = []
    for i, o in enumerate(spec["observations"]):
        # every pipeline's workflow file has the same base name, in a directory of its own
        os.makedirs(os.path.join(d, "pipe_%s" % o["name"]), exist_ok=True)
        wfname = "pipe_%s/workflow.json" % o["name"]
        with open(os.path.join(d, wfname), "w") as f:
            json.dump(wf_to_nodelink(o["workflow"]), f)
        pipelines[o["name"]] = {"workflow": wfname,
                                "ingest_demand": o["ingest_demand"]}
        ob = {"name": o["name"], "start": o["start"],
              "duration": o["duration"],
              "instrument_demand": o["demand"],
              "data_product_rate": o["rate"]}
        observations.append(ob)
    resources = {}
    for m in spec["machines"]:
        resources[m["id"]] = {"flops": m["flops"],
                              "compute_bandwidth": m["bw"]}
    cfg = {
        "instrument": {"telescope": {
            "total_arrays": spec["total_arrays"],
            "max_ingest_resources": spec["max_ingest"],
            "pipelines": pipelines,
            "observations": observations}},
        "cluster": {"header": {}, "system": {
            "resources": resources,
            "system_bandwidth": spec.get("system_bandwidth", 1.0)}},
        "buffer": {
            "hot": {"capacity": spec["hot"]["capacity"],
                    "max_ingest_rate": spec["hot"]["rate"]},
            "cold": {"capacity": spec["cold"]["capacity"],
                     "max_data_rate": spec["cold"]["rate"]}},
    }
    if spec.get("timestep", "seconds") != "seconds" or spec.get("timestep_explicit"):
        cfg["timestep"] = spec["timestep"]
    p = os.path.join(d, "cfg.json")
    with open(p, "w") as f:
        json.dump(cfg, f)
    return p


# ----------------------------------------------------------------------------
# random generation
# ----------------------------------------------------------------------------

def gen_workflow(rng, max_nodes=6, speeds=(10,), allow_zero=True, shape=None):
    n = rng.randint(1, max_nodes)
    shape = shape or rng.choice(["chain", "diamond", "fan", "random", "random",
                                 "disconnected", "single", "chains2", "shortcut"])
    if shape == "chains2":
        n = max(n, 5)
    if shape == "shortcut":
        n = max(n, 3)
    if shape == "single":
        n = 1
    nodes = []
    sp = max(speeds)
    for i in range(n):
        kind = rng.random()
        if kind < 0.15 and allow_zero:
            comp = 0
        elif kind < 0.3:
            comp = rng.randint(1, max(1, min(speeds) - 1))       # sub-step
        elif kind < 0.5:
            comp = rng.choice(speeds)                             # exactly one step somewhere
        else:
            comp = rng.randint(1, 5) * sp + rng.choice([0, 0, rng.randint(0, sp - 1)])
        nd = {"id": i, "comp": comp}
        if rng.random() < 0.3:
            nd["task_data"] = rng.choice([0, 1, 2, 4, 8, 16])
        nodes.append(nd)
    edges = []
    if shape == "chain":
        edges = [(i, i + 1) for i in range(n - 1)]
    elif shape == "diamond" and n >= 4:
        edges = [(0, i) for i in range(1, n - 1)] + [(i, n - 1) for i in range(1, n - 1)]
    elif shape == "fan":
        edges = [(0, i) for i in range(1, n)]
    elif shape == "fanin":
        # several independent roots of similar, short runtimes joined by one task: which root ends last is
        # decided at run time (delays, busy machines), not by the plan
        n = max(n, 3)
        while len(nodes) < n:
            nodes.append({"id": len(nodes), "comp": sp})
        for nd in nodes[:-1]:
            nd["comp"] = sp * rng.randint(1, 3)
        edges = [(i, n - 1) for i in range(n - 1)]
    elif shape == "chains2":
        # a root with two parallel chains of very different length: 0 -> 1 -> 3 (-> 5 ...) and 0 -> 2 -> 4 (...)
        edges = [(0, 1), (0, 2)] + [(i, i + 2) for i in range(1, n - 2)]
        nodes[1]["comp"] = rng.choice([0, 1, sp])
        nodes[2]["comp"] = sp * rng.randint(4, 8)
    elif shape == "disconnected":
        h = n // 2
        edges = [(i, i + 1) for i in range(h - 1)] + [(i, i + 1) for i in range(h, n - 1)]
    else:
        for i in range(n):
            for j in range(i + 1, n):
                if rng.random() < 0.35:
                    edges.append((i, j))
    heavy = None
    if shape == "shortcut":
        # a chain 0 -> 1 -> ... -> n-1 plus the edge 0 -> n-1 that a longer path already implies, carrying
        # far more data than the others: the last task waits for THAT transfer
        edges = [(i, i + 1) for i in range(n - 1)] + [(0, n - 1)]
        heavy = (0, n - 1)
        for nd in nodes[1:]:
            nd["comp"] = rng.choice([0, 1, sp])
    # edge volumes: dyadic relative to bandwidths (exact floats)
    edges = [[u, v, (rng.choice([32, 48, 64]) if (u, v) == heavy else rng.choice([0, 1, 2, 4, 8, 3, 6]))] for (u, v) in edges]
    if rng.random() < 0.5 and n > 1:
        # the workflow file need not list its nodes in a topological order, nor
        # number them that way: relabel and shuffle
        perm = list(range(n))
        rng.shuffle(perm)
        for nd in nodes:
            nd["id"] = perm[nd["id"]]
        edges = [[perm[u], perm[v], d] for (u, v, d) in edges]
        rng.shuffle(nodes)
        rng.shuffle(edges)
    return {"nodes": nodes, "edges": edges}


def gen_spec(rng, pairing=None, small=False, allow_tiering=False,
             force_feasible=True, timestep=None, allow_k4=False):
    """A random mostly-valid configuration.  Volumes are kept below the 0.6
    tiering threshold unless allow_tiering."""
    nm = rng.randint(1, 3 if small else 6)
    speeds = [rng.choice([4, 5, 8, 10, 10, 20]) for _ in range(nm)]
    # machine ids: usually m0..mk; sometimes ids that are prefixes / substrings of
    # one another (m1, m10, m11, ... as in the large shipped configurations)
    if rng.random() < 0.3:
        names = rng.sample(["m1", "m10", "m11", "m100", "m101", "cat0_m1", "cat0_m10", "1", "11", "M1", "Cat0_M1", "M10"], nm)
        rng.shuffle(names)      # (ids that differ only in case are different machines too)
    else:
        names = ["m%d" % i for i in range(nm)]
    machines = [{"id": names[i], "flops": speeds[i],
                 "bw": rng.choice([1, 2, 4, 8])} for i in range(nm)]
    nobs = rng.randint(1, 2 if small else 4)
    total_arrays = rng.choice([2, 4, 6])
    max_ingest = rng.randint(1, nm)
    obs = []
    t = rng.choice([0, 0, 1, 2])
    names = ["a", "b", "c", "d"]
    hot_rate = rng.choice([5, 8, 10, 20])
    for i in range(nobs):
        dur = rng.randint(1, 5)
        rate = rng.randint(1, hot_rate)
        if rng.random() < 0.08:
            rate = 0      # an observation that produces no data (or < 0.5 per step, rounded to 0)
        demand = rng.randint(1, total_arrays)
        ing = rng.randint(1, max_ingest)
        o = {"name": names[i], "start": t, "duration": dur, "demand": demand,
             "rate": rate, "ingest_demand": ing,
             "workflow": gen_workflow(rng, 4 if small else 6, speeds)}
        obs.append(o)
        mode = rng.random()
        if mode < 0.25:
            t = t                     # simultaneous
        elif mode < 0.5:
            t = t + dur               # back to back
        elif mode < 0.75:
            t = t + rng.randint(1, max(1, dur))   # overlapping
        else:
            t = t + dur + rng.randint(1, 6)       # gap
    tot = sum(o["rate"] * o["duration"] for o in obs)
    if allow_tiering:
        mx = max(o["rate"] * o["duration"] for o in obs)
        hot_cap = rng.choice([mx + 1, int(mx / 0.6) + 1, int(tot / 0.6) + 2, 2 * tot + 10])
    else:
        hot_cap = int(tot / 0.6) + 2 + rng.choice([0, 1, 10, 100])
    cold_cap = hot_cap + rng.choice([0, 5, 50]) if rng.random() < 0.8 else max(
        o["rate"] * o["duration"] for o in obs)
    spec = {
        "machines": machines, "system_bandwidth": 1.0,
        "total_arrays": total_arrays, "max_ingest": max_ingest,
        "observations": obs,
        "hot": {"capacity": hot_cap, "rate": hot_rate},
        "cold": {"capacity": cold_cap, "rate": rng.choice([2, 5, 10, 40])},
        "timestep": "seconds",
    }
    pairing = pairing or rng.choice(["batch", "queue", "dynamic", "greedy"])
    if pairing == "batch":
        parts = rng.randint(1, min(3, nm))
        mn = rng.randint(0, max(1, nm // parts))      # 0 is legal: "no minimum" (F12)
        sched = {"kind": "batch", "partitions": parts, "min": mn, "split": None}
        if rng.random() < 0.25:
            split = {}
            for o in obs:
                lo = rng.randint(1, nm)
                split[o["name"]] = [lo, rng.randint(lo, nm)]
            sched["split"] = split
            # the configured minimum holds beside the split (it may exceed an observation's own lower limit)
            sched["min"] = rng.choice([1, 1, rng.randint(1, min(v[1] for v in split.values()))])
        spec["planning"] = "batch"
        spec["scheduling"] = sched
    elif pairing == "queue":
        spec["planning"] = "batch"
        spec["scheduling"] = {"kind": "queue"}
    else:
        spec["planning"] = "static"
        spec["scheduling"] = {"kind": pairing}
        spec["static_seed"] = rng.randint(0, 10 ** 6)
        spec["static_unsorted"] = rng.random() < 0.5      # plan.tasks in topological rather than est order
    if rng.random() < 0.35:
        spec["delay"] = {"prob": rng.choice([0.0, 0.3, 0.7, 1.0]),
                         "degree": rng.choice(["LOW", "MID", "HIGH"]),
                         "seed": rng.choice([0, rng.randint(0, 50), rng.randint(0, 50), rng.randint(0, 50)])}
    elif rng.random() < 0.3:
        spec["delay"] = {"script_seed": rng.randint(0, 10 ** 6), "p": 0.4, "max": 4}
    else:
        spec["delay"] = None
    if timestep:
        spec["timestep"] = timestep
    if rng.random() < 0.3:
        # the configuration need not list its observations chronologically
        rng.shuffle(spec["observations"])
    if spec["delay"] and "prob" in spec["delay"] and not allow_k4:
        # K4 (known finding): DelayModel('normal') indexes an empty array for a
        # runtime of 0; keep every runtime >= 1 on every machine in this stream
        for o in obs:
            for nd in o["workflow"]["nodes"]:
                nd["comp"] = max(nd["comp"], max(speeds))
    return spec


def spec_features(spec):
    """Cheap structural features for the evidence's distribution report."""
    obs = spec["observations"]
    overl = 0
    for i, a in enumerate(obs):
        for b in obs[i + 1:]:
            if a["start"] < b["start"] + b["duration"] and b["start"] < a["start"] + a["duration"]:
                overl += 1
    return {
        "machines": len(spec["machines"]), "observations": len(obs),
        "overlapping_pairs": overl,
        "tasks": sum(len(o["workflow"]["nodes"]) for o in obs),
        "edges": sum(len(o["workflow"]["edges"]) for o in obs),
        "pairing": spec["scheduling"]["kind"],
        "delay": ("none" if not spec.get("delay") else
                  ("script" if "script_seed" in spec["delay"] else "model")),
    }


def feasible(spec):
    """C05's premise: each observation fits the telescope, the ingest-machine
    limit, the cluster and both buffers on its own (and, for batch scheduling,
    the configured minimum reservation fits one partition)."""
    nm = len(spec["machines"])
    for o in spec["observations"]:
        vol = o["rate"] * o["duration"]
        if o["demand"] > spec["total_arrays"]:
            return False
        if o["ingest_demand"] > min(spec["max_ingest"], nm) or o["ingest_demand"] < 1:
            return False
        if o["rate"] > spec["hot"]["rate"]:
            return False
        if vol >= spec["hot"]["capacity"] or vol > spec["cold"]["capacity"]:
            return False
        if o["duration"] < 1:
            return False
        if vol > 0 and min(spec["hot"]["rate"], spec["cold"]["rate"]) <= 0:
            return False          # data that can never be moved between the tiers
    s = spec["scheduling"]
    if s["kind"] == "batch":
        if s.get("split"):
            for o in spec["observations"]:
                lo, hi = s["split"][o["name"]]
                if lo > nm or lo > hi or hi < s.get("min", 1) or lo < 1 or s.get("min", 1) > nm:
                    return False          # (a minimum above the cluster size can never be met)
        else:
            if nm // s.get("partitions", 1) < max(1, s.get("min", 1)):
                return False
    return True


def no_tiering(spec):
    """Total data volume stays at or below the 0.6 tiering threshold."""
    tot = sum(o["rate"] * o["duration"] for o in spec["observations"])
    return 5 * tot <= 3 * spec["hot"]["capacity"]


def serial_bound(spec):
    """The analytic serial bound of C05 (in timesteps)."""
    import math
    c = 3
    unit = spec.get("timestep", "seconds")
    mult = {"seconds": 1, "minutes": 60, "hours": 3600}.get(unit, unit if isinstance(unit, int) else 1)
    if mult != 1:
        # the bound is in timesteps: evaluate it on the configuration as parsed
        sp = json.loads(json.dumps(spec))
        sp["timestep"] = "seconds"
        for o in sp["observations"]:
            o["start"] = o["start"] / mult
            o["duration"] = o["duration"] / mult
            o["rate"] = o["rate"] * mult
        for mm in sp["machines"]:
            mm["flops"] *= mult
            mm["bw"] *= mult
        sp["hot"]["rate"] *= mult
        sp["cold"]["rate"] *= mult
        return int(math.ceil(serial_bound(sp)))
    slow_cpu = min(m["flops"] for m in spec["machines"])
    slow_bw = min(m["bw"] for m in spec["machines"])
    rate = min(spec["hot"]["rate"], spec["cold"]["rate"])
    b = max(o["start"] for o in spec["observations"])
    dmax = 0
    d = spec.get("delay")
    for o in spec["observations"]:
        vol = o["rate"] * o["duration"]
        b += o["duration"] + (2 * math.ceil(vol / rate) if rate > 0 else 0) + c
        for n in o["workflow"]["nodes"]:
            rt = max(n["comp"] // slow_cpu, n.get("task_data", 0) // slow_bw)
            if spec.get("planning") == "static" and n["comp"] == 0 and n.get("task_data", 0) == 0:
                # a task without work runs for the duration its plan row gives it (Task.do_work recomputes the
                # duration only for tasks that carry work); the harness's StaticPlanning plans runtime + slack
                # (Lean: C05_planSerialBound / C05_bound_plan_counterexample_*)
                rt = max(rt, spec.get("static_slack", 0) or 0)
            if d and "prob" in d:
                rt = rt * 5 + 5          # normal(mu, <=0.75 mu) sample above the mean: far below 5x
            elif d:
                rt = rt + d.get("max", 4)
            io = max([e[2] for e in o["workflow"]["edges"] if e[1] == n["id"]] + [0])
            b += max(1, rt) + math.ceil(io / slow_bw) + c
    return b
