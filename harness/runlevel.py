"""Run-level correspondence (L3): configuration in, (per-step table, task table,
event log, end time) out — the Lean simulator (SimPy kernel model + process
models) against the real code, cell by cell."""
from fractions import Fraction

import runsim
from leanio import Driver
from replay import model_spec, Maps, L, B
from runsim import fr

EV = {("started", "telescope"): "ts", ("finished", "telescope"): "tf",
      ("added", "buffer"): "ba", ("removed", "buffer"): "br",
      ("added", "queue"): "qa", ("removed", "queue"): "qr",
      ("started", "allocation"): "as", ("stopped", "allocation"): "ao",
      ("started", "transfer"): "xs", ("stopped", "transfer"): "xo"}


def impl_output(rec, mp):
    out = rec["out"]
    rows = []
    for r in out["rows"]:
        rows.append(",".join(str(x) for x in [
            r["available_resources"], r["ingest_resources"], r["running_tasks"], r["finished_tasks"],
            r["provisioned_observations"], r["hot_buffer"], r["cold_buffer"], r["stored"],
            r["observations_waiting"], r["observations_finished"], r["observations_delayed"],
            r["scheduler_observation_queue"], B(r["schedule_status"] == "DELAYED"), r["delay_offset"]]))
    ev = ["%s.%d.%s" % (e[0], mp.oid(e[2]), EV.get((e[3], e[4]), "??")) for e in out["events"]]

    def t(x):
        return "-" if x == -1 else str(x)
    tasks = ["%s:%s:%s:%s" % (mp.tid_str(tid), t(out["tasks"][tid]["ast"]), t(out["tasks"][tid]["aft"]),
                              B(out["tasks"][tid]["finished"])) for tid in out["task_order"]]
    crashed = "ok"
    if rec["exception"]:
        n = rec["exception"]["type"]
        crashed = n if n in ("RuntimeError", "ValueError", "IndexError", "KeyError", "TypeError",
                             "ZeroDivisionError", "AttributeError") else "Other"
    return {"end": rec["end"], "crashed": crashed, "rows": "[" + ",".join(rows) + "]",
            "log": "[" + ",".join(ev) + "]", "tasks": "[" + ",".join(tasks) + "]"}


def parse_model(line):
    # end=.. crashed=.. halted=.. rows=[..] log=[..] tasks=[..]
    d = {}
    for key in ("end", "crashed", "halted", "rows", "log", "tasks"):
        i = line.index(key + "=")
        d[key] = i
    keys = sorted(d, key=lambda k: d[k])
    out = {}
    for a, b in zip(keys, keys[1:] + [None]):
        s = line[d[a] + len(a) + 1: (d[b] - 1) if b else len(line)]
        out[a] = s
    return out


def sim_env(h, mp):
    """delay table / script / static plans of a constructed simulation, or None
    when an ingredient is outside the model (delay model raising, non-integers)"""
    spec = h.spec
    env = {"delay_table": [], "delay_script": [], "static_plans": []}
    d = spec.get("delay")
    if d:
        if "script" in d or "script_seed" in d:
            env["delay_script"] = list(h.delay.script)
        else:
            mx = 1
            for o in spec["observations"]:
                for nd in o["workflow"]["nodes"]:
                    for m in h.sim.cluster.machines:
                        mx = max(mx, int(nd["comp"] // m.cpu) + 1, int(nd.get("task_data", 0) // m.bandwidth) + 1)
            tab = []
            for r in range(0, mx + 2):
                try:
                    v = h.delay.generate_delay(r)
                except Exception:   # noqa  K4: outside the table; the run will raise there too
                    continue
                tab.append([r, int(v)])
            env["delay_table"] = tab
    if spec["planning"] == "static":
        sim = h.sim
        for o in sim.instrument.observations:
            saved = o.ast
            o.ast = 0
            plan = h.planning.generate_plan(0, sim.cluster, sim.buffer, o, None)
            o.ast = saved
            rows = [[int(t.graph_id), mp.m[t.allocated_machine_id], int(t.est), int(t.eft)] for t in plan.tasks]
            env["static_plans"].append([mp.o[o.name], rows])
        h.planning.recorded = {}
    return env


def compare(spec, until=None, resume=None, max_steps=400, listeners=()):
    """Returns dict(skipped | diff | ok, impl=…, model=…)."""
    h = runsim.SimHandle(spec)
    try:
        ms, mp = model_spec(h)
        if ms is None:
            return {"skipped": "non-integral configuration", "rec": None}
        env = sim_env(h, mp)
    finally:
        h.close()
    rec = runsim.run_spec(spec, until=until, resume=resume, max_steps=max_steps, listeners=listeners)
    if rec.get("out") is None:
        return {"skipped": "no output", "rec": rec}
    if rec["nonterminated"]:
        return {"skipped": "nonterminated", "rec": rec}
    impl = impl_output(rec, mp)
    cmd = dict({"op": "simulate", "spec": ms, "max_steps": max_steps + 5}, **env)
    if until is not None:
        cmd["until"] = until
        cmd["resume"] = resume or []
    drv = Driver()
    try:
        line = drv.ask(cmd)
    finally:
        drv.close()
    model = parse_model(line)
    diffs = []
    for k in ("crashed", "rows", "log", "tasks"):
        if impl[k] != model[k]:
            diffs.append(k)
    if impl["crashed"] == "ok" and str(impl["end"]) != model["end"]:
        diffs.append("end")
    return {"ok": not diffs, "diff": diffs, "impl": impl, "model": model, "rec": rec}
