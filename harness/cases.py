"""Streams of generated cases and the worker that runs one case (real code under
the tracer, monitors, block-level replay on the Lean model)."""
import json
import os
import random
from fractions import Fraction
import sys
import traceback

HERE = os.path.dirname(os.path.abspath(__file__))
if HERE not in sys.path:
    sys.path.insert(0, HERE)

import simgen  # noqa


def make_spec(stream, rng, edge_index=None):
    """(spec, options) for one case of a stream."""
    opt = {"env": "simpy", "replay": True}
    if stream == "default":
        spec = simgen.gen_spec(rng)
    elif stream == "adversary":
        spec = simgen.gen_spec(rng, pairing="queue")
        spec["scheduling"] = {"kind": "adversary",
                              "mode": rng.choice(["random", "busy", "dup", "foreign", "resched", "unready", "static", "static", "reserve", "reserve"]),
                              "seed": rng.randint(0, 10 ** 6)}
        if rng.random() < 0.5:
            # ingests that overlap and end at different times, while earlier workflows are being scheduled
            t = rng.choice([0, 1])
            for o in spec["observations"]:
                o["start"] = t
                t += rng.randint(1, max(1, o["duration"] - 1))
                o["demand"] = 1
            spec["total_arrays"] = max(spec["total_arrays"], len(spec["observations"]))
            spec["max_ingest"] = max(spec["max_ingest"], min(len(spec["machines"]), sum(o["ingest_demand"] for o in spec["observations"])))
            tot = sum(o["rate"] * o["duration"] for o in spec["observations"])
            spec["hot"]["capacity"] = int(tot / 0.6) + 5
            spec["cold"]["capacity"] = spec["hot"]["capacity"] + 5
    elif stream in ("chaotic", "chaotic-batch", "chaotic-dynamic"):
        pairing = {"chaotic": None, "chaotic-batch": "batch", "chaotic-dynamic": "dynamic"}[stream]
        spec = simgen.gen_spec(rng, pairing=pairing)
        if rng.random() < 0.3 and stream == "chaotic":
            spec["scheduling"] = {"kind": "adversary", "mode": rng.choice(["random", "busy", "dup"]),
                                  "seed": rng.randint(0, 10 ** 6)}
        opt["env"] = "chaotic"
        opt["env_seed"] = rng.randint(0, 10 ** 9)
    elif stream in ("contended", "dynamic", "batch", "overlap", "dynamic-reuse"):
        pairing = {"contended": None, "dynamic": "dynamic", "batch": "batch", "overlap": None,
                   "dynamic-reuse": "dynamic"}[stream]
        spec = simgen.gen_spec(rng, pairing=pairing)
        if stream == "batch" and rng.random() < 0.3:
            # observation names with underscores, one a prefix of the other
            ren = dict(zip(["a", "b", "c", "d"], ["emu", "emu_b", "emu_b_2", "dingo_x"]))
            for o in spec["observations"]:
                o["name"] = ren[o["name"]]
            if spec["scheduling"].get("split"):
                spec["scheduling"]["split"] = {ren.get(k, k): v for k, v in spec["scheduling"]["split"].items()}
        if stream == "batch" and rng.random() < 0.35:
            # observations of 1-2 steps: the reservation is made in the step the ingest machines come back
            for o in spec["observations"]:
                o["duration"] = rng.choice([1, 1, 2])
                o["ingest_demand"] = max(1, min(spec["max_ingest"], len(spec["machines"]), o["ingest_demand"] + rng.choice([0, 1])))
            tot = sum(o["rate"] * o["duration"] for o in spec["observations"])
            spec["hot"]["capacity"] = int(tot / 0.6) + 5
            spec["cold"]["capacity"] = spec["hot"]["capacity"] + 5
        splitmin = stream == "batch" and rng.random() < 0.2
        if splitmin:
            # a per-observation split whose lower limits are below the configured minimum, while a long ingest holds
            # machines: a workflow that finds [lower limit, minimum) machines free must wait, not reserve too few
            nm = rng.randint(4, 5)
            mn = rng.randint(2, 3)
            spec["machines"] = [{"id": "m%d" % i, "flops": 10, "bw": 2} for i in range(nm)]
            wf = lambda: simgen.gen_workflow(rng, 4, [10])
            base = dict(spec["observations"][0])
            held = nm - rng.randint(1, mn - 1)           # machines on ingest while the first workflow asks
            spec["max_ingest"] = nm
            spec["observations"] = [
                dict(base, name="a", start=0, duration=rng.randint(1, 2), demand=1, ingest_demand=1, rate=1, workflow=wf()),
                dict(base, name="b", start=rng.randint(1, 2), duration=rng.randint(8, 12), demand=1, ingest_demand=held, rate=1,
                     workflow=wf())]
            spec["total_arrays"] = max(spec["total_arrays"], 2)
            spec["scheduling"] = {"kind": "batch", "partitions": 2, "min": mn,
                                  "split": {"a": [1, nm], "b": [1, nm]}}
            tot = sum(o["rate"] * o["duration"] for o in spec["observations"])
            spec["hot"]["capacity"], spec["hot"]["rate"] = int(tot / 0.6) + 5, max(spec["hot"]["rate"], 2)
            spec["cold"]["capacity"] = spec["hot"]["capacity"] + 5
            spec["delay"] = None
        # squeeze: few machines, observations close together, wide workflows
        if (stream != "batch" or rng.random() < 0.5) and not splitmin:
            t = rng.choice([0, 1])
            for o in spec["observations"]:
                o["start"] = t
                t += rng.randint(0, max(1, o["duration"] - 1)) if stream == "overlap" else rng.randint(0, o["duration"])
                if rng.random() < 0.5:
                    o["workflow"] = simgen.gen_workflow(rng, 7, [m["flops"] for m in spec["machines"]],
                                                        shape=rng.choice(["fan", "diamond", "random", "chains2", "chains2"]))
                o["demand"] = 1
            spec["total_arrays"] = max(spec["total_arrays"], len(spec["observations"]))
            tot = sum(o["rate"] * o["duration"] for o in spec["observations"])
            spec["hot"]["capacity"] = int(tot / 0.6) + 5
            spec["cold"]["capacity"] = spec["hot"]["capacity"] + 5
            if spec["delay"] and "prob" in spec["delay"]:
                for o in spec["observations"]:
                    for nd in o["workflow"]["nodes"]:
                        nd["comp"] = max(nd["comp"], max(m["flops"] for m in spec["machines"]))
    elif stream in ("feasible", "sequential", "idlestart"):
        for _ in range(50):
            spec = simgen.gen_spec(rng)
            if stream in ("sequential", "idlestart"):
                t = rng.choice([0, 2])
                for o in spec["observations"]:
                    o["start"] = t
                    t += o["duration"] + (rng.randint(20, 40) if stream == "idlestart" else rng.randint(0, 3))
                if stream == "idlestart":
                    spec["delay"] = None
            if simgen.feasible(spec) and simgen.no_tiering(spec):
                break
    elif stream == "tiering":
        for _ in range(50):
            spec = simgen.gen_spec(rng, allow_tiering=True, small=True)
            if simgen.feasible(spec):
                break
        opt["replay"] = True
    elif stream == "tierback":
        # an observation is tiered to the cold buffer and later fetched back
        spec = simgen.gen_spec(rng, pairing=rng.choice(["queue", "queue", "batch"]))
        spec["delay"] = None
        mx = max(m["flops"] for m in spec["machines"])
        unit = rng.choice([1, 2])
        hot = 100 * unit
        pv, av, qv = rng.randint(45, 55) * unit, rng.randint(10, 18) * unit, rng.randint(38, 44) * unit

        def ob(name, start, vol, ncomp):
            dur = rng.choice([d for d in (1, 2, 5) if vol % d == 0] or [1])
            return {"name": name, "start": start, "duration": dur, "demand": 1, "rate": vol // dur, "ingest_demand": 1,
                    "workflow": {"nodes": [{"id": 0, "comp": ncomp * mx}], "edges": []}}
        p = ob("p", 0, pv, rng.randint(30, 45))
        a = ob("a", p["duration"] + rng.randint(1, 3), av, 2)
        q = ob("q", a["start"] + a["duration"] + rng.randint(25, 40), qv, 2)
        spec["observations"] = [p, a, q]
        spec["total_arrays"] = 3
        spec["max_ingest"] = max(1, min(spec["max_ingest"], len(spec["machines"])))
        spec["hot"] = {"capacity": hot, "rate": max(o["rate"] for o in spec["observations"])}
        spec["cold"] = {"capacity": hot, "rate": rng.choice([5, 10, 20])}
        if spec["scheduling"]["kind"] == "batch":
            spec["scheduling"] = {"kind": "batch", "partitions": 1, "min": 1, "split": None}
    elif stream == "units":
        # the same kind of configuration expressed in a coarser timestep unit
        # (all times whole multiples of the unit, so the parsed values stay whole)
        spec = simgen.gen_spec(rng)
        unit = rng.choice(["minutes", 30, 60, 7, "hours"])
        m = {"minutes": 60, "hours": 3600}.get(unit, unit)
        for o in spec["observations"]:
            o["start"] *= m
            o["duration"] *= m
            # bandwidths are multiplied by the unit: keep volume / bandwidth exact in floats
            for e in o["workflow"]["edges"]:
                e[2] = rng.choice([0, 8 * m, 16 * m])
            for nd in o["workflow"]["nodes"]:
                nd["comp"] *= m
                if "task_data" in nd:
                    nd["task_data"] *= m
        spec["hot"]["capacity"] = int(sum(o["rate"] * o["duration"] for o in spec["observations"]) / 0.6) + 5
        spec["cold"]["capacity"] = spec["hot"]["capacity"] + 5
        spec["timestep"] = unit
        spec["timestep_explicit"] = True
    elif stream == "fracunits":
        # a coarser unit with durations that are NOT whole multiples of it (90 s under 'minutes' = 1.5 steps): the
        # parsed duration is fractional.  Outside the model's envelope (whole quantities; the buffer then takes in
        # ceil(duration) x rate, so C07's volume clause does not hold of the unchanged code), but the clauses of C04,
        # C05 and C06 that do hold there are judged by the monitors alone, without the model.
        spec = simgen.gen_spec(rng, pairing=rng.choice(["queue", "batch", "queue"]))
        unit = rng.choice(["minutes", 30, 60, 2, 4])
        m = {"minutes": 60}.get(unit, unit)
        for o in spec["observations"]:
            o["start"] = o["start"] * m + (m // 2 if rng.random() < 0.4 else 0)
            o["duration"] = o["duration"] * m + (m // 2 if rng.random() < 0.7 else 0)
            if rng.random() < 0.4:
                # a data rate per second whose product with the unit is not a whole number (the parser rounds it)
                o["rate"] = max(1, o["rate"]) + rng.choice([0.7, 0.1, 0.35, 0.45]) / (1 if m % 2 else 2)
            for e in o["workflow"]["edges"]:
                e[2] = rng.choice([0, 8 * m, 16 * m])
            for nd in o["workflow"]["nodes"]:
                nd["comp"] *= m
                if "task_data" in nd:
                    nd["task_data"] *= m
        spec["hot"]["capacity"] = int(sum(o["rate"] * (o["duration"] + m) for o in spec["observations"]) / 0.6) + 5
        spec["cold"]["capacity"] = spec["hot"]["capacity"] + 5
        spec["timestep"] = unit
        spec["timestep_explicit"] = True
        spec["delay"] = None
        opt["replay"] = False
        opt["only_props"] = ["C04", "C05", "C06", "C07", "C08", "C19"]
        # of C08 only what is decided at the admission instant (hold times are whole steps: with a fractional
        # duration the unchanged code holds the machines for the duration rounded up)
        opt["only_kinds"] = {"C07": ["data-owned-by-no-resident-observation", "hot-free-space-out-of-range",
                                     "cold-free-space-out-of-range", "ingest-above-max-rate"],
                             "C08": ["started-before-planned-start", "admitted-without-arrays", "admitted-without-machines",
                                     "admitted-over-ingest-limit", "admitted-without-hot-space", "admitted-without-cold-space",
                                     "admitted-on-promised-machines", "observation-admitted-twice", "admitted-not-waiting"]}
    elif stream == "big":
        spec = simgen.gen_spec(rng)
        nm = rng.randint(11, 16)
        spec["machines"] = [{"id": "m%d" % k, "flops": rng.choice([4, 5, 8, 10, 20]), "bw": rng.choice([1, 2, 4, 8])}
                            for k in range(nm)]
        spec["max_ingest"] = rng.randint(2, nm)
        speeds = [mm["flops"] for mm in spec["machines"]]
        for o in spec["observations"]:
            o["ingest_demand"] = rng.randint(1, min(spec["max_ingest"], 6))
            o["workflow"] = simgen.gen_workflow(rng, 8, speeds)
            if rng.random() < 0.5:
                for nd in o["workflow"]["nodes"]:
                    nd["task_data"] = rng.choice([0, 4, 16, 40, 64])     # data-bound tasks
        if spec["scheduling"]["kind"] == "batch":
            parts = rng.randint(1, 4)
            spec["scheduling"] = {"kind": "batch", "partitions": parts, "min": rng.randint(1, max(1, nm // parts)), "split": None}
        if spec.get("delay") and "prob" in spec["delay"]:
            for o in spec["observations"]:
                for nd in o["workflow"]["nodes"]:
                    nd["comp"] = max(nd["comp"], max(speeds))
    elif stream == "hotwait":
        # an observation falls due while the hot buffer has no room for it (the cluster
        # has): it has to wait for an earlier workflow to free its data, then starts
        spec = simgen.gen_spec(rng, pairing=rng.choice(["queue", "batch", "dynamic", "greedy"]))
        spec["delay"] = None
        nm = rng.randint(4, 6)
        spec["machines"] = [{"id": "m%d" % k, "flops": rng.choice([5, 10]), "bw": rng.choice([2, 4])} for k in range(nm)]
        mx = max(m["flops"] for m in spec["machines"])
        hot = 100
        va, vb = rng.randint(50, 58), rng.randint(43, 50)

        def ob(name, start, vol, ncomp):
            dur = rng.choice([d for d in (1, 2, 5) if vol % d == 0] or [1])
            return {"name": name, "start": start, "duration": dur, "demand": 1, "rate": vol // dur, "ingest_demand": 1,
                    "workflow": {"nodes": [{"id": 0, "comp": ncomp * mx}, {"id": 1, "comp": 2 * mx}], "edges": [[0, 1, 2]]}}
        a = ob("a", 0, va, rng.randint(8, 20))
        b = ob("b", a["duration"] + rng.randint(2, 6), vb, 2)
        spec["observations"] = [a, b]
        spec["total_arrays"] = 2
        spec["max_ingest"] = rng.choice([nm, 2 * nm, 60])     # the limit may exceed the cluster size
        spec["hot"] = {"capacity": hot, "rate": max(a["rate"], b["rate"])}
        spec["cold"] = {"capacity": 300, "rate": 10}
        if spec["scheduling"]["kind"] == "batch":
            spec["scheduling"] = {"kind": "batch", "partitions": 2, "min": 1, "split": None}
    elif stream == "samestep":
        spec = simgen.gen_spec(rng)
        if len(spec["observations"]) < 2:
            spec["observations"].append(dict(spec["observations"][0], name="b"))
        a, b = spec["observations"][0], spec["observations"][1]
        b["start"] = a["start"]
        a["demand"] = b["demand"] = 1
        spec["total_arrays"] = max(spec["total_arrays"], 2 * len(spec["observations"]))
        nm = len(spec["machines"])
        a["ingest_demand"] = max(1, (nm + 1) // 2)
        b["ingest_demand"] = max(1, (nm + 1) // 2)
        spec["max_ingest"] = a["ingest_demand"] + b["ingest_demand"] + rng.choice([0, 1])
        tot = sum(o["rate"] * o["duration"] for o in spec["observations"])
        spec["hot"]["capacity"] = int(tot / 0.6) + 5
        spec["cold"]["capacity"] = spec["hot"]["capacity"]
    elif stream == "overcommit" and edge_index is not None and edge_index % 3 == 2:
        # K5 shape: several observations stored above the tiering threshold, a cold tier that holds any one of
        # them but not all: the buffer loop starts one hot->cold move per step while the earlier ones are in flight
        spec = simgen.gen_spec(rng, pairing="queue")
        n = 3
        r = rng.choice([20, 30, 40])
        wf = lambda: {"nodes": [{"id": 0, "comp": 1}], "edges": []}
        spec["machines"] = [{"id": "m%d" % i, "flops": 1, "bw": 1} for i in range(n)]
        spec["total_arrays"], spec["max_ingest"] = n, n
        spec["observations"] = [{"name": nm, "start": 0, "duration": 1, "demand": 1, "rate": r, "ingest_demand": 1,
                                 "workflow": wf()} for nm in "abc"]
        spec["hot"] = {"capacity": n * r + rng.choice([10, 20]), "rate": 50}
        spec["cold"] = {"capacity": 3 * r - rng.choice([5, 10]), "rate": rng.choice([5, 10])}
        spec["delay"] = None
    elif stream == "overcommit":
        spec = simgen.gen_spec(rng, pairing=rng.choice(["queue", "batch"]))
        if len(spec["observations"]) < 2:
            spec["observations"].append(dict(spec["observations"][0], name="b"))
        a, b = spec["observations"][0], spec["observations"][1]
        a["duration"] = b["duration"] = rng.randint(2, 4)
        b["start"] = a["start"] + 1
        a["demand"] = b["demand"] = 1
        a["ingest_demand"] = b["ingest_demand"] = 1
        spec["max_ingest"] = max(2, spec["max_ingest"])
        if len(spec["machines"]) < 3:
            spec["machines"] = [{"id": "m%d" % i, "flops": 10, "bw": 2} for i in range(3)]
        if spec["scheduling"]["kind"] == "batch":
            spec["scheduling"] = {"kind": "batch", "partitions": 1, "min": 1, "split": None}
        spec["total_arrays"] = max(spec["total_arrays"], 2 * len(spec["observations"]))
        va = a["rate"] * a["duration"]
        vb = b["rate"] * b["duration"]
        spec["hot"]["capacity"] = max(va, vb) + 1 + rng.randint(0, max(1, min(va, vb) - 2))
        spec["cold"]["capacity"] = 10 * (va + vb)
        spec["observations"] = [a, b]
        spec["delay"] = None
    elif stream == "edge":
        # boundary values of every admission / tiering decision, hit exactly
        spec = simgen.gen_spec(rng, pairing=rng.choice(["queue", "batch", "queue", "dynamic"]))
        spec["delay"] = None
        obs = spec["observations"]
        kinds = ["threshold", "handover", "threshold2", "hotfit", "coldfit", "machines", "ingestlimit", "arrays", "rate",
                 "coldshort", "ingestlimit3", "ratefrac", "emptywf", "stalecheck", "hugecap", "doubleadmit", "coldinflight", "toowide", "zerodemand", "fraccap"]
        which = kinds[edge_index % len(kinds)] if edge_index is not None else rng.choice(kinds)
        obs.sort(key=lambda o: o["start"])
        if len(obs) < 2 and which in ("threshold2", "hotfit", "ingestlimit", "arrays", "handover"):
            obs.append(dict(obs[0], name="b", start=obs[0]["start"] + 1,
                            workflow=simgen.gen_workflow(rng, 4, [m["flops"] for m in spec["machines"]])))
            spec["observations"] = obs
        nm = len(spec["machines"])
        for o in obs:
            o["demand"] = 1
        spec["total_arrays"] = max(spec["total_arrays"], len(obs))
        if which in ("threshold", "threshold2"):
            # used fraction reaches EXACTLY 0.6
            a = obs[0]
            a["duration"] = rng.choice([2, 3, 4, 6])
            a["rate"] = 3 * rng.randint(1, 3)
            if which == "threshold" or len(obs) < 2:
                spec["observations"] = obs = [a]
                vol = a["rate"] * a["duration"]
            else:
                b = obs[1]
                b["duration"], b["rate"] = a["duration"], a["rate"]
                b["start"] = a["start"] + a["duration"] + rng.choice([0, 1])
                a["workflow"] = {"nodes": [{"id": 0, "comp": 12 * max(m["flops"] for m in spec["machines"])}], "edges": []}
                spec["observations"] = obs = [a, b]
                vol = 2 * a["rate"] * a["duration"]
            spec["hot"]["capacity"] = vol * 5 // 3
            spec["hot"]["rate"] = max(spec["hot"]["rate"], a["rate"])
            spec["cold"]["capacity"] = spec["hot"]["capacity"] + rng.choice([0, 7])
        elif which == "hotfit" and len(obs) >= 2:
            a, b = obs[0], obs[1]
            b["start"] = a["start"] + 1
            a["duration"] = max(a["duration"], 3)
            va, vb = a["rate"] * a["duration"], b["rate"] * b["duration"]
            # when b is due (one step into a's ingest) the free space is exactly b's volume
            spec["hot"]["capacity"] = max(va, vb) + 1 + 10 * (va + vb)
            spec["hot"]["capacity"] = a["rate"] * 2 + vb if a["rate"] * 2 + vb > max(va, vb) else spec["hot"]["capacity"]
            spec["cold"]["capacity"] = 20 * (va + vb)
            spec["observations"] = obs = [a, b]
        elif which == "coldfit":
            a = obs[0]
            spec["cold"]["capacity"] = a["rate"] * a["duration"]
        elif which == "coldshort":
            # the LAST observation fits the hot tier but is one unit too big for the cold tier: never admitted
            b = obs[-1]
            b["rate"] = max(1, b["rate"])
            vb = b["rate"] * b["duration"]
            tot = sum(o["rate"] * o["duration"] for o in obs)
            spec["hot"]["capacity"] = int(tot / 0.6) + 5
            spec["hot"]["rate"] = max(spec["hot"]["rate"], b["rate"])
            spec["cold"]["capacity"] = max(1, vb - 1)
            for o in obs[:-1]:
                if o["rate"] * o["duration"] > spec["cold"]["capacity"]:
                    o["rate"] = 0
        elif which == "machines":
            for o in obs:
                o["ingest_demand"] = nm
            spec["max_ingest"] = nm
        elif which == "ingestlimit" and len(obs) >= 2 and nm >= 2:
            a, b = obs[0], obs[1]
            b["start"] = a["start"] + 1
            a["duration"] = max(a["duration"], 3)
            a["ingest_demand"] = 1
            b["ingest_demand"] = nm - 1
            spec["max_ingest"] = nm
        elif which == "ingestlimit3":
            # one observation ingesting, two more falling due in the same step: each fits the limit with the
            # running one, both together do not (machines, arrays and buffer suffice for all three)
            wf = lambda: simgen.gen_workflow(rng, 3, [m["flops"] for m in spec["machines"]])
            lim = rng.choice([2, 2, 3])
            da = rng.randint(1, lim - 1)
            db = dc = lim - da
            t0 = rng.choice([0, 1])
            k = rng.randint(1, 3)
            a = dict(obs[0], name="a", start=t0, duration=k + rng.randint(3, 5), ingest_demand=da, workflow=wf())
            b = dict(obs[0], name="b", start=t0 + k, duration=rng.randint(1, 3), ingest_demand=db, workflow=wf())
            c = dict(obs[0], name="c", start=t0 + k, duration=rng.randint(1, 3), ingest_demand=dc, workflow=wf())
            spec["observations"] = obs = [a, b, c]
            for o in obs:
                o["demand"] = 1
                o["rate"] = max(1, min(o["rate"], 3))
            spec["total_arrays"] = 3
            spec["max_ingest"] = lim
            need = da + db + dc + 1
            while len(spec["machines"]) < need:
                spec["machines"].append({"id": "mx%d" % len(spec["machines"]), "flops": 10, "bw": 2})
            nm = len(spec["machines"])
            spec["hot"]["rate"] = max(spec["hot"]["rate"], 3)
        elif which == "arrays" and len(obs) >= 2:
            a, b = obs[0], obs[1]
            b["start"] = a["start"] + 1
            a["duration"] = max(a["duration"], 3)
            a["demand"] = rng.randint(1, 3)
            b["demand"] = rng.randint(1, 3)
            spec["total_arrays"] = a["demand"] + b["demand"]
        elif which == "rate":
            spec["hot"]["rate"] = max(o["rate"] for o in obs)
        elif which == "stalecheck":
            # an observation that fits the hot tier when it falls due but has to wait for ingest machines; while it
            # waits another one fills the tier: it must be re-checked against the buffer, not admitted on the old answer
            wf = lambda: simgen.gen_workflow(rng, 3, [m["flops"] for m in spec["machines"]])
            r = rng.choice([15, 18, 20])
            d = rng.randint(3, 4)
            big = dict(obs[0], name="a", start=0, duration=d, demand=1, rate=r, ingest_demand=2, workflow=wf())
            dump = dict(obs[0], name="b", start=0, duration=1, demand=1, rate=100 - r * d + rng.randint(2, 8),
                        ingest_demand=1, workflow=wf())
            spec["observations"] = obs = [big, dump]
            spec["machines"] = [{"id": "m%d" % i, "flops": 10, "bw": 2} for i in range(2)]
            nm = 2
            spec["max_ingest"] = 2
            spec["total_arrays"] = 2
            spec["hot"] = {"capacity": 100, "rate": 100}
            spec["cold"] = {"capacity": 200, "rate": 50}
            if spec["scheduling"]["kind"] == "batch":
                spec["scheduling"] = {"kind": "batch", "partitions": 1, "min": 1, "split": None}
        elif which == "doubleadmit":
            # two observations falling due in the same step: each fits the free machines on its own, both together
            # do not, and together they are within the ingest-machine limit (arrays and buffer suffice for both)
            wf = lambda: simgen.gen_workflow(rng, 3, [m["flops"] for m in spec["machines"]])
            variant = ((edge_index // len(kinds)) % 2) if edge_index is not None else rng.randrange(2)
            db, dc = rng.choice([(2, 2), (1, 2), (2, 1), (2, 3), (3, 3)])
            t0 = rng.choice([0, 1, 4])
            new = []
            if variant == 0:
                free = max(db, dc) + rng.randint(0, min(db, dc) - 1)
                nm = free
            else:
                da = rng.randint(1, 2)
                free = max(db, dc) + rng.randint(0, min(db, dc) - 1)
                nm = free + da
                k = rng.randint(1, 2)
                new.append(dict(obs[0], name="a", start=t0, duration=k + rng.randint(3, 5), ingest_demand=da, workflow=wf()))
                t0 += k
            new.append(dict(obs[0], name="b", start=t0, duration=rng.randint(1, 3), ingest_demand=db, workflow=wf()))
            new.append(dict(obs[0], name="c", start=t0, duration=rng.randint(1, 3), ingest_demand=dc, workflow=wf()))
            spec["observations"] = obs = new
            for o in obs:
                o["demand"] = 1
                o["rate"] = max(1, min(o["rate"], 3))
            spec["total_arrays"] = len(obs)
            spec["machines"] = [{"id": "m%d" % i, "flops": rng.choice([5, 10]), "bw": 2} for i in range(nm)]
            spec["max_ingest"] = sum(o["ingest_demand"] for o in obs) + rng.choice([0, 1])
            spec["hot"]["rate"] = max(spec["hot"]["rate"], 3)
            if spec["scheduling"]["kind"] == "batch":
                spec["scheduling"] = {"kind": "batch", "partitions": 1, "min": 1, "split": None}
            if spec["scheduling"]["kind"] == "dynamic":
                spec["planning"], spec["scheduling"] = "batch", {"kind": "queue"}
        elif which == "coldinflight":
            # an observation falls due while another one is on its way from the hot to the cold tier: the cold tier
            # shows room for it, but not once the rest of the move has arrived - it has to wait
            chain = lambda first: {"nodes": [{"id": 0, "comp": first}, {"id": 1, "comp": 10}], "edges": [[0, 1, 1]]}
            dc, rc = rng.choice([(30, 1), (15, 2), (10, 3)])
            spec["observations"] = obs = [
                {"name": "a", "start": 0, "duration": 1, "demand": 1, "rate": 41, "ingest_demand": 1, "workflow": chain(180)},
                {"name": "a2", "start": 1, "duration": 1, "demand": 1, "rate": 7, "ingest_demand": 1, "workflow": chain(100)},
                {"name": "b", "start": 2, "duration": 1, "demand": 1, "rate": 13, "ingest_demand": 1, "workflow": chain(10)},
                {"name": "c", "start": 5, "duration": dc, "demand": 1, "rate": rc, "ingest_demand": 1, "workflow": chain(10)}]
            spec["machines"] = [{"id": "m%d" % i, "flops": 10, "bw": 2} for i in range(rng.choice([4, 5]))]
            nm = len(spec["machines"])
            spec["max_ingest"] = 2
            spec["total_arrays"] = 4
            spec["hot"] = {"capacity": 100, "rate": 50}
            spec["cold"] = {"capacity": 42, "rate": 5}
            spec["planning"], spec["scheduling"] = "batch", {"kind": "queue"}
        elif which == "zerodemand":
            # an observation that needs no array at all (legal: it is ready whenever 0 <= free arrays), observed on its
            # own after the others: while it runs the telescope is busy although no array is in use
            last = max(o["start"] + o["duration"] for o in obs)
            z = dict(obs[0], name="z", start=last + rng.randint(3, 8), duration=rng.randint(2, 4),
                     workflow=simgen.gen_workflow(rng, 3, [m["flops"] for m in spec["machines"]]))
            spec["observations"] = obs = obs + [z]
            opt["zero_demand"] = "z"
            opt["only_props"] = ["C19"]
        elif which == "toowide":
            # an observation that asks for more arrays than the telescope has: it can never be observed, the run
            # never completes - and no idleness query may say otherwise (only the queries are judged on this run)
            k = rng.randrange(len(obs))
            spec["total_arrays"] = max([o["demand"] for o in obs] + [spec["total_arrays"]])
            obs[k]["demand"] = spec["total_arrays"] + rng.randint(1, 2)
            opt["only_props"] = ["C19"]
            opt["replay"] = False
        elif which == "hugecap":
            # tiers many orders of magnitude larger than what is stored in them (exact integers)
            spec["hot"]["capacity"] = 4 * 10 ** 12
            spec["cold"]["capacity"] = 2 * 10 ** 12
        elif which == "emptywf":
            # an observation whose workflow has no task at all (a pure calibration scan): it is queued,
            # "processed" and removed within one step, possibly before the telescope has marked it finished
            k = rng.randrange(len(obs))
            obs[k]["workflow"] = {"nodes": [], "edges": []}
            if obs[k]["start"] < 1:
                for o in obs:
                    o["start"] += 1
            if spec["scheduling"]["kind"] == "dynamic":
                spec["planning"], spec["scheduling"] = "batch", {"kind": "queue"}
        elif which == "ratefrac":
            # a fractional (binary-exact) data rate just above / at / below the hot tier's maximum ingest rate:
            # the parser rounds it to a whole number, and a rate above the maximum is refused with an error
            spec["hot"]["rate"] = max(1, max(o["rate"] for o in obs))
            variant = ((edge_index // len(kinds)) % 3) if edge_index is not None else rng.randrange(3)
            if variant == 0:
                obs[-1]["rate"] = spec["hot"]["rate"] + rng.choice([0.75, 0.25, -0.25, 0.5])
            else:
                # ... or the LIMIT is fractional and a whole-number rate lies just above (1) / below (2) it
                k = spec["hot"]["rate"]
                spec["hot"]["rate"] = k + (0.75 if variant == 1 else rng.choice([0.75, 0.5, 0.25]))
                obs[-1]["rate"] = k + (1 if variant == 1 else 0)
        elif which == "handover" and len(obs) >= 2:
            # x starts in exactly the step y finishes, fills the telescope, and is listed first
            y, x = obs[0], obs[1]
            x["start"] = y["start"] + y["duration"]
            y["demand"] = rng.randint(1, 3)
            x["demand"] = rng.randint(1, 3)
            spec["total_arrays"] = x["demand"] + y["demand"] if rng.random() < 0.7 else x["demand"] + y["demand"] + 1
            nm2 = len(spec["machines"])
            x["ingest_demand"] = y["ingest_demand"] = 1
            spec["max_ingest"] = max(2, spec["max_ingest"])
            if nm2 < 2:
                spec["machines"].append({"id": "mx", "flops": 10, "bw": 2})
            rest = obs[2:]
            for k, o in enumerate(rest):
                o["start"] = x["start"] + x["duration"] + 2 + 3 * k
            spec["observations"] = obs = [x, y] + rest
        for o in obs:
            o["ingest_demand"] = min(o["ingest_demand"], spec["max_ingest"], nm)
        if which not in ("threshold", "threshold2", "hotfit", "coldfit", "coldshort", "stalecheck", "hugecap", "coldinflight"):
            tot = sum(o["rate"] * o["duration"] for o in obs)
            spec["hot"]["capacity"] = int(tot / 0.6) + 5
            spec["cold"]["capacity"] = spec["hot"]["capacity"] + 5
        if opt.get("zero_demand"):
            for o in obs:
                if o["name"] == opt["zero_demand"]:
                    o["demand"] = 0
        if which == "fraccap":
            # tier capacities that are not whole numbers (binary-exact): the table reports the free space as it is,
            # not rounded (the model keeps whole capacities: judged on the real code, for C12 only)
            spec["hot"]["capacity"] = spec["hot"]["capacity"] + rng.choice([0.5, 0.25, 0.75])
            spec["cold"]["capacity"] = spec["cold"]["capacity"] + rng.choice([0.5, 0.25])
            opt["replay"] = False
            opt["only_props"] = ["C12"]
        opt["edge"] = which
    elif stream == "shutdown":
        # the public Scheduler.shutdown() called at a pause point with observations still queued: the scheduler
        # stops taking new observations, the queued workflows go on - and the idle queries must keep telling the truth
        spec = simgen.gen_spec(rng, pairing=rng.choice(["queue", "batch"]))
        spec["delay"] = None
        last = max(o["start"] + o["duration"] for o in spec["observations"])
        opt["replay"] = False
        opt["shutdown_at"] = rng.randint(1, max(2, last + 3))
        opt["only_props"] = ["C19"]
    elif stream == "joinrace":
        # plan-following scheduling of joins whose predecessors were planned to end together (equal roots on
        # machines of equal speed) and end, at run time, in an order the plan did not foresee (scripted delays)
        spec = simgen.gen_spec(rng)
        spec["planning"], spec["scheduling"] = "static", {"kind": rng.choice(["dynamic", "dynamic", "dynamic", "greedy"])}
        spec["static_seed"] = rng.randint(0, 10 ** 6)
        f0 = spec["machines"][0]["flops"]
        while len(spec["machines"]) < 3:
            spec["machines"].append({"id": "mz%d" % len(spec["machines"]), "flops": f0, "bw": spec["machines"][0]["bw"]})
        for m in spec["machines"]:
            m["flops"] = f0
        for o in spec["observations"]:
            o["workflow"] = simgen.gen_workflow(rng, 4, [f0], shape="fanin")
            k = rng.randint(1, 3)
            with_succ = {e[0] for e in o["workflow"]["edges"]}
            for nd in o["workflow"]["nodes"]:
                if nd["id"] in with_succ:
                    nd["comp"] = f0 * k + (rng.choice([0, 0, f0]) if rng.random() < 0.3 else 0)
                    nd.pop("task_data", None)
        if rng.random() < 0.75:
            # every root on a machine of its own, the join on the machine of one of them
            sp = {}
            mids = [m["id"] for m in spec["machines"]]
            for o in spec["observations"]:
                with_succ = sorted({e[0] for e in o["workflow"]["edges"]}, key=str)
                join = [nd["id"] for nd in o["workflow"]["nodes"] if nd["id"] not in with_succ]
                asg = {str(r): mids[i % len(mids)] for i, r in enumerate(with_succ)}
                for j in join:
                    asg[str(j)] = mids[rng.randrange(min(len(mids), max(1, len(with_succ))))]
                sp[o["name"]] = asg
            spec["static_plan"] = sp
        spec["delay"] = {"script_seed": rng.randint(0, 10 ** 6), "p": 0.6, "max": 8}
        if rng.random() < 0.3:
            spec["static_slack"] = rng.choice([2, 5])
    elif stream == "delays":
        spec = simgen.gen_spec(rng)
        if rng.random() < 0.35:
            # joins whose predecessors end in an order the plan did not foresee
            forced = rng.random() < 0.7
            if forced:
                spec["planning"], spec["scheduling"] = "static", {"kind": rng.choice(["dynamic", "dynamic", "greedy"])}
                spec["static_seed"] = rng.randint(0, 10 ** 6)
                while len(spec["machines"]) < 3:
                    spec["machines"].append({"id": "mz%d" % len(spec["machines"]), "flops": spec["machines"][0]["flops"],
                                             "bw": spec["machines"][0]["bw"]})
            for o in spec["observations"]:
                o["workflow"] = simgen.gen_workflow(rng, 4, [m["flops"] for m in spec["machines"]], shape="fanin")
            if forced:
                # roots of equal planned length on machines of equal speed: the planned finishing order is a tie-break
                if rng.random() < 0.7:
                    f0 = spec["machines"][0]["flops"]
                    for m in spec["machines"]:
                        m["flops"] = f0
                    for o in spec["observations"]:
                        k = rng.randint(1, 3)
                        ids_with_succ = {e[0] for e in o["workflow"]["edges"]}
                        for nd in o["workflow"]["nodes"]:
                            if nd["id"] in ids_with_succ:
                                nd["comp"] = f0 * k
                                nd.pop("task_data", None)
                # delays large enough to turn the planned finishing order of the roots around
                spec["delay"] = {"script_seed": rng.randint(0, 10 ** 6), "p": 0.5, "max": 8}
                spec["_fanin_forced"] = True
        if spec["planning"] == "static" and rng.random() < 0.6:
            spec["static_slack"] = rng.choice([2, 5, 20])     # plans with room: a delayed task may still be "on plan"
        if spec.pop("_fanin_forced", False):
            pass
        elif rng.random() < 0.6:
            spec["delay"] = {"script_seed": rng.randint(0, 10 ** 6), "p": 0.6, "max": 5}
        else:
            spec["delay"] = {"prob": rng.choice([0.3, 0.7, 1.0]), "degree": rng.choice(["LOW", "MID", "HIGH"]),
                             "seed": rng.randint(0, 60)}
            for o in spec["observations"]:
                for nd in o["workflow"]["nodes"]:
                    nd["comp"] = max(nd["comp"], max(m["flops"] for m in spec["machines"]))
    else:
        raise ValueError(stream)
    sk = spec["scheduling"]
    if sk.get("split"):
        names = [o["name"] for o in spec["observations"]]
        for o in spec["observations"]:
            sk["split"].setdefault(o["name"], [1, len(spec["machines"])])
        sk["split"] = {n: v for n, v in sk["split"].items() if n in names}
    return spec, opt


def classify_c05(spec, rec, mon):
    """C05's statement evaluated on one run: returns a violation dict or None."""
    if not simgen.feasible(spec):
        return None
    bound = simgen.serial_bound(spec)
    exc = rec["exception"]
    exceeded = mon.max_hot_used > Fraction(3, 5)
    if exc is not None:
        where = exc.get("where") or ("?", 0, "?")
        sig = "exc:%s@%s:%s" % (exc["type"], where[0], where[2])
        if exc["type"] == "IndexError" and where[2] == "run" and exceeded:
            sig += ":usage-exceeded-0.6"
        times = [a[0]["now"] for a in mon.admit.values() if a]
        if exc["type"] == "RuntimeError" and where[2] == "provision_ingest_resources" and \
                len(times) != len(set(times)):
            sig += ":same-step-admissions"
        return {"prop": "C05", "kind": "feasible-run-raised", "sig": sig,
                "detail": "%s at %s" % (exc["type"], where)}
    if rec["nonterminated"]:
        fin = rec.get("final_state", {})
        sig = "nonterminated"
        if fin.get("cold_stored"):
            sig += ":observation-left-in-cold" + (":usage-exceeded-0.6" if exceeded else "")
        elif fin.get("hot_over_threshold"):
            sig += ":hot-over-threshold"
        return {"prop": "C05", "kind": "feasible-run-did-not-terminate", "sig": sig,
                "detail": "still running after %s steps (bound %s); %s" % (rec["end"], bound, fin)}
    if isinstance(rec["end"], int) and rec["end"] > bound:
        return {"prop": "C05", "kind": "bound-exceeded", "sig": "bound-exceeded",
                "detail": "finished at %s, serial bound %s" % (rec["end"], bound)}
    return None


def run_runlevel(stream, seed, rng, props):
    """L3: the Lean simulator must predict the whole run (rows, log, task table,
    end time); for 'runlevel-paused' also a paused-and-resumed run."""
    import runlevel
    import monitors
    spec = simgen.gen_spec(rng, small=(stream == "runlevel-paused"))
    mon = monitors.Monitors(props=set(props) if props else None)
    until = resume = None
    if stream == "runlevel-paused":
        first = runlevel.compare(spec)
        rec0 = first.get("rec")
        T = rec0["end"] if rec0 else None
        if not isinstance(T, int) or T < 3 or rec0["exception"]:
            T = 6
        k = rng.randint(1, T - 1)
        resume = sorted(set([rng.randint(k + 1, T) for _ in range(rng.randint(1, 3))] + [T]))
        until = k
    r = runlevel.compare(spec, until=until, resume=resume, listeners=[mon])
    rec = r.get("rec") or {}
    diffs = []
    if not r.get("skipped") and not r["ok"]:
        k0 = r["diff"][0]
        a, b = str(r["impl"][k0]), str(r["model"][k0])
        j = 0
        while j < min(len(a), len(b)) and a[j] == b[j]:
            j += 1
        diffs.append({"block": 0, "kind": "run-level:" + ",".join(r["diff"]), "time": None,
                      "where": {"impl": a[max(0, j - 80): j + 80], "model": b[max(0, j - 80): j + 80]},
                      "until": until, "resume": resume})
    viol = [dict(v, sig=v.get("sig", v["kind"])) for v in rec.get("violations", [])
            if until is None or v["prop"] in ("C13", "C11")]
    return {"stream": stream, "seed": seed, "spec": spec, "opt": {"until": until, "resume": resume},
            "end": rec.get("end"), "exception": rec.get("exception"), "nonterminated": rec.get("nonterminated", False),
            "violations": viol, "features": rec.get("features", {}), "blocks": rec.get("blocks", 0),
            "replay": {"blocks": 1 if not r.get("skipped") else 0, "diffs": diffs, "skipped": r.get("skipped"),
                       "samples": []},
            "feat2": simgen.spec_features(spec), "feasible": simgen.feasible(spec), "tier_moves": 0,
            "runlevel": True}


def run_case(job):
    """job = (stream, seed, props)  ->  compact summary dict (picklable)."""
    stream, seed, props = job[:3]
    preset = job[3] if len(job) > 3 else None      # corpus / replay: the recorded configuration itself
    try:
        import runsim
        import monitors
        import replay as replay_mod
        import fakeenv
        if stream == "clusterops":
            import clusterops
            return clusterops.run_case(seed, props)
        rng = random.Random("%s-%s" % (stream, seed))
        if stream in ("runlevel", "runlevel-paused"):
            return run_runlevel(stream, seed, rng, props)
        if preset and preset.get("spec") and preset.get("opt"):
            spec, opt = json.loads(json.dumps(preset["spec"])), dict(preset["opt"])
        else:
            spec, opt = make_spec(stream, rng, edge_index=seed)
        mprops = None
        if opt["env"] == "chaotic":
            # order-dependent clauses are stated for SimPy's order only
            mprops = {"C01", "C02", "C04", "C07", "C09", "C17", "C19", "C08"}
            mprops = mprops & set(props) if props else mprops
        if opt.get("only_props"):
            mprops = set(opt["only_props"])
        mon = monitors.Monitors(props=mprops, simpy_order=(opt["env"] == "simpy"))
        listeners = [mon]
        rp = None
        if opt.get("replay"):
            rp = replay_mod.ModelReplay()
            listeners.append(rp)
        shared = None
        if stream == "dynamic-reuse":
            # a first simulation with ANOTHER plan, driven through the same algorithm object
            shared = {"share_sched": True}
            first = dict(spec, static_seed=spec.get("static_seed", 0) + 7919)
            runsim.run_spec(first, max_steps=600, shared=shared)
        env = None
        if opt["env"] == "chaotic":
            env = fakeenv.FakeEnv(rng=random.Random(opt["env_seed"]), policy="chaotic")
        bound = simgen.serial_bound(spec) if simgen.feasible(spec) else 300
        if opt.get("shutdown_at"):
            k = opt["shutdown_at"]
            rec = runsim.run_spec(spec, listeners=listeners, until=k, resume=[k + 40],
                                  between=lambda sim: sim.scheduler.shutdown())
        else:
            rec = runsim.run_spec(spec, listeners=listeners, max_steps=min(4 * bound + 50, 6000), env=env, shared=shared)
        viol = []
        adversary = spec["scheduling"]["kind"] == "adversary"
        for v in rec.get("violations", []):
            if adversary and v["prop"] in ("C03", "C06", "C15"):
                continue          # stated for the shipped algorithms only
            ok_kinds = (opt.get("only_kinds") or {}).get(v["prop"])
            if ok_kinds is not None and v["kind"] not in ok_kinds:
                continue          # this stream is outside the envelope of the other clauses of that property
            v = dict(v)
            v.setdefault("sig", v["kind"])
            viol.append(v)
        if opt["env"] == "simpy" and not adversary and not opt.get("shutdown_at"):
            c5 = classify_c05(spec, rec, mon)
            if c5:
                viol.append(c5)
        out = {
            "stream": stream, "seed": seed, "spec": spec, "opt": opt,
            "end": rec["end"], "exception": rec["exception"], "nonterminated": rec["nonterminated"],
            "violations": viol, "features": rec.get("features", {}), "blocks": rec.get("blocks", 0),
            "rowchecks": rec.get("rowchecks", 0), "kinds": rec.get("kinds", {}),
            "replay": rec.get("replay"), "feat2": simgen.spec_features(spec),
            "feasible": simgen.feasible(spec), "tier_moves": mon.tier_moves,
        }
        return out
    except BaseException as e:   # noqa
        # outside a simulation run (configuration parsing, object construction): an exception raised by the
        # implementation on a generated, legal configuration is a behaviour of the implementation, reported
        # against the property being checked; anything else is an infrastructure failure, not a verdict
        repo = os.path.realpath(os.environ.get("TOPSIM_REPO", "/repo"))
        frames, ex, seen = [], e, set()
        while ex is not None and id(ex) not in seen and isinstance(ex, Exception):
            seen.add(id(ex))
            frames += traceback.extract_tb(ex.__traceback__)
            ex = ex.__cause__ or ex.__context__
        inside = [f for f in frames if os.path.realpath(f.filename).startswith(repo + os.sep)]
        if inside and isinstance(e, Exception):
            w = inside[-1]
            return {"stream": stream, "seed": seed, "spec": locals().get("spec"), "opt": locals().get("opt"),
                    "violations": [{"prop": "*", "kind": "implementation-raised-outside-run",
                                    "sig": "setup-raised:%s@%s:%s" % (type(e).__name__, os.path.basename(w.filename), w.name),
                                    "detail": "%s: %s (in %s:%d %s)" % (type(e).__name__, str(e)[:120],
                                                                       os.path.relpath(w.filename, repo), w.lineno, w.name)}],
                    "features": {}, "replay": None, "end": None, "exception": None, "nonterminated": False}
        return {"stream": stream, "seed": seed, "infra_error": "%s\n%s" % (repr(e), traceback.format_exc()[-1500:])}
