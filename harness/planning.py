"""Harness-side stand-ins: a static planner (SHADOW is not importable here),
adversarial scheduling algorithms and scripted delay models.

Nothing in here may depend on hash() of strings (PYTHONHASHSEED)."""
import copy
import json
import random

import networkx as nx

from topsim.algorithms.planning import Planning
from topsim.algorithms.scheduling import Scheduling
from topsim.core.planner import WorkflowPlan, WorkflowStatus
from topsim.core.task import Task, TaskStatus


class StaticPlanning(Planning):
    """Mirrors SHADOWPlanning.generate_plan's output shape: every task carries a
    planned machine id and planned est/eft from a deterministic list schedule."""

    def __init__(self, algorithm="static", delay_model=None, seed=0, assign=None, sort_by_est=True, slack=0):
        super().__init__(algorithm, delay_model)
        self.slack = slack               # planned finish = planned start + runtime + slack (conservative estimates)
        self.seed = seed
        self.sort_by_est = sort_by_est   # False: the plan lists its tasks in topological, not est, order
        self.assign = assign        # optional {obsname: {node: machine_id}}
        self.recorded = {}          # task id -> planned machine id

    def __str__(self):
        return "StaticPlanning"

    def to_df(self):
        pass

    def generate_plan(self, clock, cluster, buffer, observation, max_ingest):
        if observation.ast is None:
            raise RuntimeError("Observation AST must be updated before plan")
        with open(observation.workflow, "r") as infile:
            config = json.load(infile)
        graph = nx.readwrite.node_link_graph(config["graph"])
        order = list(nx.lexicographical_topological_sort(graph))
        machines = list(cluster.machines)
        ready = {m.id: 0 for m in machines}
        eft_of = {}
        mapping = {}
        tasks = []
        for node in order:
            if self.assign and observation.name in self.assign:
                mid = self.assign[observation.name][str(node)] \
                    if str(node) in self.assign[observation.name] \
                    else self.assign[observation.name][node]
            else:
                r = random.Random("%s-%s-%s" % (self.seed, observation.name, node))
                mid = machines[r.randrange(len(machines))].id
            m = cluster.machine_ids[mid]
            comp = graph.nodes[node]["comp"]
            data = graph.nodes[node].get("task_data", 0)
            dur = max(int(comp / m.cpu), int(data / m.bandwidth))
            est = ready[mid]
            for p in graph.predecessors(node):
                est = max(est, eft_of[p])
            eft = est + dur + self.slack
            eft_of[node] = eft
            ready[mid] = eft
            tid = self._create_observation_task_id(node, observation, clock)
            preds = [self._create_observation_task_id(p, observation, clock)
                     for p in graph.predecessors(node)]
            edge_costs = {}
            for p in graph.pred[node]:
                edge_costs[self._create_observation_task_id(p, observation, clock)] = \
                    graph.pred[node][p]["transfer_data"]
            dm = copy.copy(self.delay_model)
            t = Task(tid, est, eft, mid, preds, comp, data, edge_costs, dm)
            t.graph_id = node
            mapping[node] = t
            tasks.append(t)
            self.recorded[tid] = mid
        new_graph = nx.relabel_nodes(graph, mapping)
        if self.sort_by_est:
            tasks.sort(key=lambda x: x.est)
        exec_order = [t.id for t in tasks]
        est = self._calc_workflow_est(observation, buffer)
        eft = max([0] + list(eft_of.values()))
        return WorkflowPlan(observation.name, est, eft, tasks, exec_order,
                            WorkflowStatus.SCHEDULED, max_ingest, new_graph)


class ScriptedDegree:
    def __init__(self, value):
        self.value = value

    def __str__(self):
        return "SCRIPT"


class ScriptedDelay:
    """Arbitrary per-task delay vectors: the k-th call of generate_delay (in
    event order, shared between all copies) adds script[k % len]."""

    def __init__(self, script):
        self.script = list(script)
        self.shared = {"k": 0, "calls": []}
        self.degree = ScriptedDegree(0.5)
        self.prob = 1.0
        self.dist = "script"
        self.seed = 0

    def __copy__(self):
        c = ScriptedDelay.__new__(ScriptedDelay)
        c.__dict__ = dict(self.__dict__)
        return c

    def __str__(self):
        return "SCRIPT"

    def generate_delay(self, task_runtime, n=100):
        k = self.shared["k"]
        self.shared["k"] = k + 1
        add = self.script[k % len(self.script)] if self.script else 0
        self.shared["calls"].append((task_runtime, add))
        return task_runtime + add


def make_script(seed, p, mx, n=64):
    r = random.Random(seed)
    return [(r.randint(1, mx) if r.random() < p else 0) for _ in range(n)]


class Adversary(Scheduling):
    """A user scheduling algorithm that proposes whatever it likes.

    modes: 'random'  any machine for every ready task
           'busy'    prefers machines that are occupied / on ingest
           'dup'     the same machine for every ready task of the round
           'foreign' reserves machines under foreign names and proposes them
           'resched' also re-proposes tasks that are already SCHEDULED/RUNNING
           'unready' also proposes tasks whose predecessors have not finished
           'static'  task j of the plan on machine j % n, whatever the machine is doing
           'reserve' reserves machines under the workflow's own name, proposes them, never releases them itself
    """

    def __init__(self, mode="random", seed=0):
        super().__init__()
        self.name = "Adversary"
        self.mode = mode
        self.rng = random.Random(seed)
        self.proposals = []      # log of (clock, plan id, task id, machine id, machine state)
        self.foreign_done = False

    def __repr__(self):
        return "Adversary(%s)" % self.mode

    def to_df(self):
        pass

    def run(self, cluster, clock, workflow_plan, existing_schedule, task_pool):
        allocations = copy.copy(existing_schedule)
        machines = list(cluster.machines)
        busy = [m for m in machines if cluster.is_occupied(m)]
        if self.mode == "foreign" and not self.foreign_done and \
                len(cluster.get_available_resources()) >= 2:
            cluster.provision_batch_resources(1, "__foreign__")
            self.foreign_done = True
        if self.mode == "reserve" and len(workflow_plan.tasks) > 0 and \
                not cluster.is_observation_provisioned(workflow_plan.id) and \
                len(cluster.get_available_resources()) >= 1 and self.rng.random() < 0.8:
            # reserves machines for the workflow under its own name and leaves the clean-up to the scheduler
            # (Cluster.provision_batch_resources: "released by the scheduler when the observation is finished")
            cluster._adv_call = True
            try:
                cluster.provision_batch_resources(self.rng.randint(1, 2), workflow_plan.id)
            finally:
                cluster._adv_call = False
        dupm = self.rng.choice(machines)
        for task in workflow_plan.tasks:
            if task in allocations:
                continue
            st = task.task_status
            ready = all(cluster.is_task_finished(p)
                        for p in workflow_plan.graph.predecessors(task))
            propose = False
            if st is TaskStatus.UNSCHEDULED and ready:
                propose = self.mode == "static" or self.rng.random() < 0.8
            elif st is TaskStatus.UNSCHEDULED and self.mode == "unready":
                propose = self.rng.random() < 0.15
            elif st in (TaskStatus.SCHEDULED, TaskStatus.RUNNING) and self.mode == "resched":
                propose = self.rng.random() < 0.1
            if not propose:
                continue
            if self.mode == "dup":
                m = dupm
            elif self.mode == "static":
                m = machines[list(workflow_plan.tasks).index(task) % len(machines)]
            elif self.mode == "busy" and busy and self.rng.random() < 0.7:
                m = self.rng.choice(busy)
            elif self.mode == "foreign" and cluster.get_idle_resources("__foreign__") \
                    and self.rng.random() < 0.5:
                m = cluster.get_idle_resources("__foreign__")[0]
            elif self.mode == "reserve" and cluster.is_observation_provisioned(workflow_plan.id) \
                    and cluster.get_idle_resources(workflow_plan.id) and self.rng.random() < 0.8:
                m = self.rng.choice(cluster.get_idle_resources(workflow_plan.id))
            else:
                m = self.rng.choice(machines)
            allocations[task] = m
            self.proposals.append((clock, workflow_plan.id, task.id, m.id))
        if len(workflow_plan.tasks) == 0:
            workflow_plan.status = WorkflowStatus.FINISHED
            if self.mode == "foreign" and self.foreign_done:
                # the adversary returns what it reserved itself (its proposals
                # are what is under test, not a leaked reservation of its own)
                cluster.release_batch_resources("__foreign__")
        return allocations, workflow_plan.status, task_pool
