"""Block tracer: wraps every generator method of the 13 process kinds so that
each stretch between two yields (a *block*) is bracketed by callbacks.

Installed by monkey-patching the classes from the harness -- no source change
in /repo is needed.  Works both under real SimPy and under the chaotic executor
(fakeenv.py)."""
import contextlib

KINDS = [
    # (module, class, method, kind)
    ("topsim.core.monitor", "Monitor", "run", "monitor"),
    ("topsim.user.telescope", "Telescope", "run", "telescope"),
    ("topsim.core.cluster", "Cluster", "run", "clusterloop"),
    ("topsim.core.scheduler", "Scheduler", "run", "schedloop"),
    ("topsim.core.buffer", "Buffer", "run", "bufferloop"),
    ("topsim.core.scheduler", "Scheduler", "allocate_ingest", "allocingest"),
    ("topsim.core.cluster", "Cluster", "provision_ingest_resources", "provingest"),
    ("topsim.core.buffer", "Buffer", "ingest_data_stream", "ingeststream"),
    ("topsim.core.cluster", "Cluster", "allocate_task_to_cluster", "alloctask"),
    ("topsim.core.task", "Task", "do_work", "dowork"),
    ("topsim.core.scheduler", "Scheduler", "allocate_tasks", "alloctasks"),
    ("topsim.core.buffer", "Buffer", "move_hot_to_cold", "hot2cold"),
    ("topsim.core.buffer", "Buffer", "move_cold_to_hot", "cold2hot"),
]


class Tracer:
    """Receives spawn / block callbacks.  Subclass or attach listeners."""

    def __init__(self):
        self.listeners = []
        self.next_pid = 0
        self.procs = {}          # pid -> dict(kind, self, args, kwargs)
        self.current = None      # pid of the running block
        self.enabled = True

    def spawn(self, kind, obj, args, kwargs):
        pid = self.next_pid
        self.next_pid += 1
        self.procs[pid] = {"kind": kind, "obj": obj, "args": args,
                           "kwargs": kwargs, "parent": self.current,
                           "blocks": 0, "alive": True}
        for l in self.listeners:
            l.on_spawn(pid, self.procs[pid])
        return pid

    def drive(self, pid, g):
        send = None
        info = self.procs[pid]
        while True:
            prev = self.current
            self.current = pid
            for l in self.listeners:
                l.on_begin(pid, info)
            try:
                v = g.send(send)
            except StopIteration as e:
                info["alive"] = False
                info["blocks"] += 1
                for l in self.listeners:
                    l.on_end(pid, info, ("end", e.value))
                self.current = prev
                return e.value
            except BaseException as e:
                info["alive"] = False
                info["blocks"] += 1
                for l in self.listeners:
                    l.on_end(pid, info, ("raise", e))
                self.current = prev
                raise
            info["blocks"] += 1
            for l in self.listeners:
                l.on_end(pid, info, ("yield", v))
            self.current = prev
            send = yield v


_installed = {}
_active = [None]


def _make_wrapper(orig, kind):
    def wrapper(self, *a, **kw):
        tr = _active[0]
        g = orig(self, *a, **kw)
        if tr is None or not tr.enabled:
            return g
        pid = tr.spawn(kind, self, a, kw)
        return tr.drive(pid, g)
    wrapper.__wrapped__ = orig
    wrapper.__name__ = getattr(orig, "__name__", "wrapped")
    return wrapper


def install():
    import importlib
    for (mod, cls, meth, kind) in KINDS:
        key = (mod, cls, meth)
        if key in _installed:
            continue
        c = getattr(importlib.import_module(mod), cls)
        orig = c.__dict__[meth]
        _installed[key] = orig
        setattr(c, meth, _make_wrapper(orig, kind))


def uninstall():
    import importlib
    for (mod, cls, meth), orig in list(_installed.items()):
        c = getattr(importlib.import_module(mod), cls)
        setattr(c, meth, orig)
    _installed.clear()


@contextlib.contextmanager
def tracing(tracer):
    install()
    prev = _active[0]
    _active[0] = tracer
    try:
        yield tracer
    finally:
        _active[0] = prev
