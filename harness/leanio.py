"""Talk to the Lean model driver (line protocol, one JSON command per line)."""
import json
import os
import subprocess

VERIF = os.path.dirname(os.path.dirname(os.path.abspath(__file__)))
LEAN_DIR = os.path.join(VERIF, "lean")
DRIVER = os.path.join(LEAN_DIR, ".lake", "build", "bin", "driver")


class Driver:
    def __init__(self):
        if os.path.exists(DRIVER):
            cmd = [DRIVER]
        else:
            cmd = ["lake", "env", "lean", "--run", "Driver.lean"]
        self.p = subprocess.Popen(cmd, cwd=LEAN_DIR, stdin=subprocess.PIPE,
                                  stdout=subprocess.PIPE, text=True, bufsize=1)
        self.n = 0

    def ask(self, obj):
        self.p.stdin.write(json.dumps(obj) + "\n")
        self.p.stdin.flush()
        line = self.p.stdout.readline()
        if not line:
            raise RuntimeError("lean driver died")
        self.n += 1
        return line.rstrip("\n")

    def close(self):
        try:
            self.p.stdin.close()
            self.p.wait(timeout=5)
        except Exception:
            self.p.kill()


def rat(x):
    """number -> JSON form of an exact rational ([num, den] or int)"""
    from fractions import Fraction
    f = Fraction(x)
    if f.denominator == 1:
        return int(f.numerator)
    return [int(f.numerator), int(f.denominator)]
