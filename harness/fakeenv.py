"""A stand-in for simpy.Environment that lets the harness choose the order of
blocks inside an instant (the L2 relation of DESIGN.md: any process whose wake
time is minimal may run next).  The real topsim generators run unmodified on
it: they only use env.now, env.timeout, env.process and Process.triggered.

policy 'simpy'   : exactly SimPy's (time, priority, insertion id) order
policy 'chaotic' : a random choice among all entries of minimal time
"""
import heapq
from fractions import Fraction


class FakeTimeout:
    def __init__(self, delay, value=None):
        if delay < 0:
            raise ValueError("Negative delay %s" % delay)
        self._delay = delay
        self._value = value


class FakeProcess:
    def __init__(self, env, gen):
        self.env = env
        self.gen = gen
        self.triggered = False
        self.value = None
        self.failed = None
        self.callbacks = []      # processes waiting for this one to end

    @property
    def is_alive(self):
        return not self.triggered


class Crash(Exception):
    def __init__(self, exc):
        super().__init__(repr(exc))
        self.exc = exc


class FakeEnv:
    URGENT, NORMAL = 0, 1

    def __init__(self, rng=None, policy="chaotic"):
        self._now = 0
        self.rng = rng
        self.policy = policy
        self.queue = []          # (time, prio, eid, proc)
        self.eid = 0
        self.steps = 0
        self.order_log = []

    @property
    def now(self):
        return self._now

    def timeout(self, delay, value=None):
        return FakeTimeout(delay, value)

    def process(self, gen):
        p = FakeProcess(self, gen)
        self._push(self._now, self.URGENT, p)
        return p

    def peek(self):
        return min(e[0] for e in self.queue) if self.queue else float("inf")

    def _push(self, t, prio, p):
        self.eid += 1
        self.queue.append((t, prio, self.eid, p))

    def _pop(self):
        tmin = min(e[0] for e in self.queue)
        cands = [e for e in self.queue if e[0] == tmin]
        if self.policy == "simpy" or self.rng is None:
            e = min(cands, key=lambda e: (e[1], e[2]))
        else:
            e = self.rng.choice(cands)
        self.queue.remove(e)
        return e

    def step(self):
        (t, prio, eid, p) = self._pop()
        self._now = t
        self.steps += 1
        try:
            v = p.gen.send(getattr(p, "_send", None))
        except StopIteration as e:
            self.on_end(p, e.value)
            return
        except BaseException as e:
            p.triggered = True
            p.failed = e
            raise
        self.after_yield(p, v)

    def on_end(self, p, value):
        p.triggered = True
        p.value = value
        for w in p.callbacks:
            w._send = value
            self._push(self._now, self.NORMAL, w)
        p.callbacks = []

    def after_yield(self, p, v):
        p._send = None
        if isinstance(v, FakeTimeout):
            self._push(self._now + v._delay, self.NORMAL, p)
        elif isinstance(v, FakeProcess):
            # waiting for another process: resumed (NORMAL, at that time) when it ends
            if v.triggered:
                p._send = v.value
                self._push(self._now, self.NORMAL, p)
            else:
                v.callbacks.append(p)
        else:
            raise TypeError("process yielded %r" % (v,))

    def run(self, until=None):
        if until is not None and until <= self._now:
            raise ValueError("until (%s) must be greater than the current simulation time" % until)
        while self.queue:
            if until is not None and self.peek() >= until:
                break
            self.step()
        if until is not None:
            self._now = until
