"""Direct (op-level) checks: the real classes are driven on generated inputs,
their results compared with the Lean model's executable definitions through the
driver (correspondence) and with a direct evaluation of the property (monitor).

Each function returns a dict:
  evaluations, nontrivial, violations [ {prop,kind,sig,detail,input} ],
  diffs [ {input, impl, model} ], samples, dist
"""
import json
import math
import os
import random
import subprocess
import sys
from fractions import Fraction

import runsim  # noqa  (sets sys.path for topsim)
import simgen
from leanio import Driver, rat
from runsim import fr

ERRNAMES = {"RuntimeError", "ValueError", "IndexError", "KeyError", "TypeError",
            "ZeroDivisionError", "AttributeError"}


def errname(e):
    n = type(e).__name__
    return n if n in ERRNAMES else "Other"


def result():
    return {"evaluations": 0, "nontrivial": 0, "violations": [], "diffs": [], "samples": [], "dist": {}}


def bump(d, k, n=1):
    d[k] = d.get(k, 0) + n


# ---------------------------------------------------------------- C06
def check_c06(rng, n):
    """Task.do_work / calculate_runtime on a private SimPy environment."""
    import simpy
    from topsim.core.task import Task
    from topsim.core.machine import Machine
    import planning as hp
    res = result()
    drv = Driver()
    seen = set()
    try:
        for i in range(n):
            cpu = rng.choice([1, 2, 4, 5, 8, 10, 20, 84])
            bw = rng.choice([1, 2, 4, 8, 10])
            kind = rng.random()
            if kind < 0.15:
                flops = 0
            elif kind < 0.35:
                flops = rng.randint(1, max(1, cpu - 1))
            elif kind < 0.5:
                flops = cpu * rng.randint(1, 4)
            else:
                flops = rng.randint(0, 12 * cpu)
            data = rng.choice([0, 0, rng.randint(0, 6 * bw)])
            add = rng.choice([0, 0, 0, 1, 2, 5])
            planned = rng.randint(0, 6)

            def run(flops, data, cpu, bw, add, planned):
                env = simpy.Environment(initial_time=rng.choice([0, 3]))
                m = Machine("m", cpu, 1, 1, bw)
                t = Task("t", 0, planned, None, [], flops, data, {},
                         hp.ScriptedDelay([add]) if add else None)
                t0 = env.now
                p = env.process(t.do_work(env, m, None))
                env.run()
                return t, t0
            t, t0 = run(flops, data, cpu, bw, add, planned)
            res["evaluations"] += 1
            key = (flops // cpu, data // bw, add, flops == 0 and data == 0)
            if key not in seen:
                seen.add(key)
                res["nontrivial"] += 1
            span = Fraction(t.aft) - Fraction(t.ast)
            nominal = max(flops // cpu, data // bw) if (flops > 0 or data > 0) else planned
            total = nominal + add
            bump(res["dist"], "runtime0" if nominal == 0 else "runtime1" if nominal == 1 else "runtime>1")
            if add:
                bump(res["dist"], "delayed")
            inp = {"flops": flops, "data": data, "cpu": cpu, "bw": bw, "add": add, "planned": planned}
            if t.duration != nominal:
                res["violations"].append({"prop": "C06", "kind": "runtime-formula", "sig": "runtime-formula",
                                          "detail": "duration %s, formula %s" % (t.duration, nominal), "input": inp})
            if span != max(1, total) or t.ast != t0:
                res["violations"].append({"prop": "C06", "kind": "span-not-runtime", "sig": "span-not-runtime",
                                          "detail": "aft-ast=%s, max(1,%s)" % (span, total), "input": inp})
            if add and not t.delay_flag:
                res["violations"].append({"prop": "C15", "kind": "delay-not-flagged", "sig": "delay-not-flagged",
                                          "detail": "", "input": inp})
            # correspondence with the model
            if flops > 0 or data > 0:
                got = drv.ask({"op": "runtime", "flops": flops, "data": data, "cpu": cpu, "bw": bw})
                want = "ok %d occ=%d" % (t.duration, max(1, t.duration))
                if add == 0 and got != "ok %d occ=%s" % (t.duration, fr(span)):
                    res["diffs"].append({"input": inp, "impl": "ok %d occ=%s" % (t.duration, fr(span)), "model": got})
            got = drv.ask({"op": "span", "total": total})
            if got != str(fr(span)):
                res["diffs"].append({"input": inp, "impl": str(fr(span)), "model": got})
            # monotonicity on a neighbouring input
            flops2 = flops + rng.choice([0, 1, cpu, 3 * cpu])
            cpu2 = max(1, cpu - rng.choice([0, 1, cpu // 2]))
            t2, _ = run(flops2, data, cpu, bw, add, planned) if (flops > 0 or data > 0) else (t, 0)
            t3, _ = run(flops, data, cpu2, bw, add, planned) if (flops > 0 or data > 0) else (t, 0)
            s2 = Fraction(t2.aft) - Fraction(t2.ast)
            s3 = Fraction(t3.aft) - Fraction(t3.ast)
            if s2 < span:
                res["violations"].append({"prop": "C06", "kind": "more-work-finished-sooner", "sig": "not-monotone-work",
                                          "detail": "work %s->%s span %s->%s" % (flops, flops2, span, s2), "input": inp})
            if s3 < span:
                res["violations"].append({"prop": "C06", "kind": "slower-machine-finished-sooner", "sig": "not-monotone-speed",
                                          "detail": "cpu %s->%s span %s->%s" % (cpu, cpu2, span, s3), "input": inp})
            if len(res["samples"]) < 3:
                res["samples"].append({"input": inp, "ast": fr(t.ast), "aft": fr(t.aft), "duration": t.duration})
            if i % 6 == 0:
                c06_from_workflow_file(rng, res)
        # transfer waits (C03 start formula)
        for i in range(n // 2):
            bw = rng.choice([1, 2, 4, 8])
            now = rng.randint(0, 10)
            preds = []
            for k in range(rng.randint(0, 3)):
                preds.append((rng.randint(0, now + 1), rng.choice([0, 1, 2, 3, 4, 6, 8])))
            env = simpy.Environment(initial_time=now)
            m = Machine("m", 10, 1, 1, bw)
            ps = []
            io = {}
            for k, (aft, vol) in enumerate(preds):
                p = Task("p%d" % k, 0, 1, None, [])
                p.aft = aft
                io[p.id] = vol
                ps.append(p)
            t = Task("t", 0, 1, None, [p.id for p in ps], 10, 0, io, None)
            env.process(t.do_work(env, m, ps))
            env.run()
            res["evaluations"] += 1
            want = max([Fraction(now)] + [Fraction(a) + Fraction(v, bw) for a, v in preds])
            inp = {"now": now, "bw": bw, "preds": preds}
            if Fraction(t.ast) != want:
                res["violations"].append({"prop": "C03", "kind": "start-not-max-of-allocation-and-arrivals",
                                          "sig": "start-formula", "detail": "ast %s want %s" % (fr(t.ast), want), "input": inp})
            got = drv.ask({"op": "wait", "now": now, "bw": bw, "preds": [[a, v] for a, v in preds]})
            if got != str(fr(float(want)) if want.denominator != 1 else int(want)) and got != showf(want):
                res["diffs"].append({"input": inp, "impl": showf(want), "model": got})
            if want > now:
                bump(res["dist"], "transfer-wait")
    finally:
        drv.close()
    return res


def showf(f):
    f = Fraction(f)
    return str(f.numerator) if f.denominator == 1 else "%d/%d" % (f.numerator, f.denominator)


# ---------------------------------------------------------------- C15
def check_c15(rng, n, thorough=False):
    from numpy.random import default_rng
    from topsim.core.delay import DelayModel
    res = result()
    drv = Driver()
    known = []
    try:
        runtimes = [0, 1, 2, 3, 5, 11, 40, 100] + ([7, 13, 64, 250, 1000] if thorough else [])
        probs = [0.0, 0.3, 0.7, 1.0]
        degrees = ["NONE", "LOW", "MID", "HIGH"]
        seeds = [20, 0, 1, 7] + ([3, 11, 42, 99] if thorough else [])
        normal_seeds = list(range(0, 64)) + ([116, 146, 153, 155, 241, 254, 258] + list(range(64, 400)) if thorough else [116, 155])
        dists = ["normal", "poisson", "uniform"]
        for dist in dists:
            for rt in runtimes:
                for prob in probs:
                    for deg in degrees:
                        for seed in (normal_seeds if (dist == "normal" and deg != "NONE" and prob > 0) else seeds):
                            dm = DelayModel(prob, dist, DelayModel.DelayDegree[deg], seed=seed)
                            inp = {"dist": dist, "runtime": rt, "prob": prob, "degree": deg, "seed": seed}
                            res["evaluations"] += 1
                            try:
                                r1 = dm.generate_delay(rt)
                                r2 = DelayModel(prob, dist, DelayModel.DelayDegree[deg], seed=seed).generate_delay(rt)
                                r3 = dm.generate_delay(rt)          # the same object asked again
                                import copy as _copy
                                r4 = _copy.copy(dm).generate_delay(rt)   # a per-task copy, as the planners make
                                if not (r1 == r3 == r4):
                                    r2 = ("same-object", r1, r3, r4)
                                impl = "ok %d" % int(r1)
                                err = None
                            except Exception as e:   # noqa
                                impl = errname(e)
                                err = e
                                r1 = r2 = None
                            degv = DelayModel.DelayDegree[deg].value
                            u = Fraction(float(default_rng(seed).random()))
                            fires = degv != 0 and u < Fraction(prob)
                            bump(res["dist"], "%s:%s" % (dist, "fires" if fires else "quiet"))
                            if fires:
                                res["nontrivial"] += 1
                            if err is not None:
                                sig = "delay:%s:%s%s" % (errname(err), dist, ":runtime0" if (rt == 0 and dist == "normal") else "")
                                res["violations"].append({"prop": "C15", "kind": "delay-model-failed", "sig": sig,
                                                          "detail": repr(err)[:120], "input": inp})
                            else:
                                if r1 < rt:
                                    res["violations"].append({"prop": "C15", "kind": "delay-shortened", "sig": "delay-shortened",
                                                              "detail": "%s -> %s" % (rt, r1), "input": inp})
                                if (degv == 0 or prob == 0 or rt == 0) and r1 != rt:
                                    res["violations"].append({"prop": "C15", "kind": "delay-where-none-expected",
                                                              "sig": "delay-where-none-expected", "detail": "%s -> %s" % (rt, r1), "input": inp})
                                if r1 != r2:
                                    res["violations"].append({"prop": "C15", "kind": "delay-not-deterministic",
                                                              "sig": "delay-not-deterministic", "detail": "%s vs %s" % (r1, r2), "input": inp})
                            # correspondence: feed numpy's actual draws to the model
                            samples = []
                            if dist == "normal" and fires:
                                s = default_rng(seed).normal(rt, degv * rt, 100)
                                samples = [rat(Fraction(float(x))) for x in s]
                            got = drv.ask({"op": "delay", "runtime": rt, "degree_zero": degv == 0, "dist": dist,
                                           "prob": rat(Fraction(prob)), "u": rat(u), "samples": samples})
                            if got != impl:
                                res["diffs"].append({"input": inp, "impl": impl, "model": got})
                            if len(res["samples"]) < 3 and fires and dist == "normal" and rt > 0:
                                res["samples"].append({"input": inp, "result": impl})
        # where the model (fed numpy's own draws for that seed) and this interpreter disagree, ask a FRESH interpreter:
        # the answer is a function of (seed, probability, degree, runtime), not of what else this process has computed
        for d_ in [x for x in res["diffs"] if x["impl"].startswith("ok ")][:6]:
            i_ = d_["input"]
            code = ("import sys; sys.path.insert(0, %r); from topsim.core.delay import DelayModel; "
                    "print(int(DelayModel(%r, %r, DelayModel.DelayDegree[%r], seed=%r).generate_delay(%r)))" % (
                        os.environ.get("TOPSIM_REPO", "/repo"), i_["prob"], i_["dist"], i_["degree"], i_["seed"], i_["runtime"]))
            fr_ = subprocess.run([sys.executable, "-c", code], capture_output=True, text=True)
            fresh = fr_.stdout.strip().split("\n")[-1] if fr_.stdout.strip() else "?"
            if fresh != "?" and "ok " + fresh != d_["impl"]:
                res["violations"].append({"prop": "C15", "kind": "delay-not-deterministic", "sig": "delay-not-deterministic:fresh-interpreter",
                                          "detail": "%s in this process, %s in a fresh interpreter" % (d_["impl"], fresh), "input": i_})
    finally:
        drv.close()
    return res


# ---------------------------------------------------------------- C16
def check_c16(rng, n):
    from topsim.core.config import Config
    res = result()
    drv = Driver()
    try:
        for i in range(n):
            unit = rng.choice(["seconds", "minutes", "hours", 30, 60, 120, 7, 1, 300, 900, 49])
            m = {"seconds": 1, "minutes": 60, "hours": 3600}.get(unit, unit)
            # a physical configuration, in seconds, whole multiples of every unit used
            k1, k2 = rng.randint(0, 5), rng.randint(1, 6)
            if rng.random() < 0.4:
                # larger whole multiples: exact under a correctly rounded division, not under "multiply by 1/unit"
                k1, k2 = rng.randint(0, 70), rng.randint(1, 70)
            start, duration = k1 * m, k2 * m
            rate = rng.randint(1, 9)
            frac = rng.random() < 0.25
            if frac:
                # a fractional (binary-exact) data rate: the parser rounds rate x unit half-to-even
                rate = rate + rng.choice([0.25, 0.5, 0.75])
            hot_rate, cold_rate = rng.randint(int(rate), 12), rng.randint(1, 12)
            flops, bw = rng.choice([4, 10, 84]), rng.choice([1, 2, 10])
            wf = {"nodes": [{"id": 0, "comp": flops * m * rng.randint(0, 3)}], "edges": []}
            spec = {"machines": [{"id": "m0", "flops": flops, "bw": bw}], "system_bandwidth": 2,
                    "total_arrays": 4, "max_ingest": 1,
                    "observations": [{"name": "a", "start": start, "duration": duration, "demand": 3,
                                      "rate": rate, "ingest_demand": 1, "workflow": wf}],
                    "hot": {"capacity": 10 ** 6, "rate": hot_rate}, "cold": {"capacity": 10 ** 6 + 5, "rate": cold_rate},
                    "timestep": unit, "timestep_explicit": True}
            d = simgen.workdir("cfg")
            try:
                cfg = Config(simgen.write_case(spec, d))
                machines, sysbw = cfg.parse_cluster_config()
                total_arrays, pipelines, observations, max_ingest = cfg.parse_instrument_config("telescope")
                hot, cold = cfg.parse_buffer_config()
                again = None
                if i % 2 == 0:
                    # the same Config object read a second time (a second Cluster / Telescope / Buffer built
                    # from it) is scaled by the same factor, not by the factor once more
                    m2, sb2 = cfg.parse_cluster_config()
                    ta2, _, obs2, mi2 = cfg.parse_instrument_config("telescope")
                    h2, c2 = cfg.parse_buffer_config()
                    again = (Fraction(obs2[0].est), Fraction(obs2[0].duration), Fraction(obs2[0].ingest_data_rate),
                             Fraction(h2[0].max_ingest_data_rate), Fraction(c2[0].max_data_rate), Fraction(m2[0].cpu),
                             Fraction(m2[0].bandwidth), Fraction(sb2), h2[0].total_capacity, c2[0].total_capacity, ta2, mi2)
            finally:
                simgen.rm_workdir(d)
            o = observations[0]
            if again is not None:
                first = (Fraction(o.est), Fraction(o.duration), Fraction(o.ingest_data_rate),
                         Fraction(hot[0].max_ingest_data_rate), Fraction(cold[0].max_data_rate), Fraction(machines[0].cpu),
                         Fraction(machines[0].bandwidth), Fraction(sysbw), hot[0].total_capacity, cold[0].total_capacity,
                         total_arrays, max_ingest)
                if again != first:
                    res["violations"].append({"prop": "C16", "kind": "unit-scaling", "sig": "unit-scaling:second-parse",
                                              "detail": "the same Config read twice: %s then %s" % (
                                                  [str(x) for x in first], [str(x) for x in again]),
                                              "input": {"unit": unit, "start": start, "duration": duration, "rate": rate}})
            res["evaluations"] += 1
            bump(res["dist"], str(unit))
            if m != 1:
                res["nontrivial"] += 1
            impl = "%s %s %s %s %s %s %s %s" % (
                showf(Fraction(o.est)), showf(Fraction(o.duration)), showf(Fraction(o.ingest_data_rate)),
                showf(Fraction(hot[0].max_ingest_data_rate)), showf(Fraction(cold[0].max_data_rate)),
                showf(Fraction(machines[0].cpu)), showf(Fraction(machines[0].bandwidth)), showf(Fraction(sysbw)))
            qr = Fraction(rate)
            cmd = {"op": "scale", "start": start, "duration": duration,
                   "rate": rate if qr.denominator == 1 else [qr.numerator, qr.denominator], "hot_rate": hot_rate,
                   "cold_rate": cold_rate, "flops": flops, "bw": bw, "sysbw": 2}
            if isinstance(unit, int):
                cmd["unit_int"] = unit
            else:
                cmd["unit_str"] = unit
            got = drv.ask(cmd)
            inp = {"unit": unit, "start": start, "duration": duration, "rate": rate}
            if got != impl:
                res["diffs"].append({"input": inp, "impl": impl, "model": got})
            # property, evaluated directly against the seconds configuration
            bad = []
            if Fraction(o.est) * m != start or Fraction(o.duration) * m != duration:
                bad.append("start/duration not divided by %s" % m)
            if o.ingest_data_rate != round(rate * m) or o.ingest_data_rate != int(o.ingest_data_rate):
                bad.append("data rate is not the whole number round(rate x unit)")
            if hot[0].max_ingest_data_rate != hot_rate * m or cold[0].max_data_rate != cold_rate * m:
                bad.append("buffer rates not multiplied")
            if machines[0].cpu != flops * m or machines[0].bandwidth != bw * m or sysbw != 2 * m:
                bad.append("speed/bandwidth not multiplied")
            if not frac and o.ingest_data_rate * o.duration != rate * duration:
                bad.append("volume depends on unit")
            if not frac and (o.ingest_data_rate <= hot[0].max_ingest_data_rate) != (rate <= hot_rate):
                bad.append("rate-limit comparison depends on unit")
            if hot[0].total_capacity != 10 ** 6 or cold[0].total_capacity != 10 ** 6 + 5 or o.demand != 3 \
                    or total_arrays != 4 or max_ingest != 1:
                bad.append("capacity/count/demand scaled")
            comp = wf["nodes"][0]["comp"]
            if int(comp / machines[0].cpu) * m != comp // flops:
                bad.append("runtime in seconds depends on unit")
            for b in bad:
                res["violations"].append({"prop": "C16", "kind": "unit-scaling", "sig": "unit-scaling:" + b.split()[0],
                                          "detail": b, "input": inp})
            if len(res["samples"]) < 3:
                res["samples"].append({"input": inp, "parsed": impl})
            if i % 4 == 0:
                c16_realtime_cold(rng, res)
            if i % 4 == 1:
                c16_one_unit_run(rng, res)
            if i % 4 == 2:
                c16_fractional_limits(rng, res)
    finally:
        drv.close()
    return res


def c16_fractional_limits(rng, res):
    """Buffer rate limits that are not whole per second (binary-exact): they are multiplied by the unit like every
    other rate and NOT rounded (3.5 /s stays 3.5 under 'seconds' and becomes 210 under 'minutes')."""
    from topsim.core.config import Config
    unit = rng.choice(["seconds", "minutes", "hours", 30, 7, 1, 2])
    m = {"seconds": 1, "minutes": 60, "hours": 3600}.get(unit, unit)
    hr = rng.randint(3, 12) + rng.choice([0.5, 0.25, 0.75])
    cr = rng.randint(1, 12) + rng.choice([0.5, 0.25, 0.75])
    spec = {"machines": [{"id": "m0", "flops": 10, "bw": 2}], "system_bandwidth": 2, "total_arrays": 4, "max_ingest": 1,
            "observations": [{"name": "a", "start": 0, "duration": m, "demand": 1, "rate": 1, "ingest_demand": 1,
                              "workflow": {"nodes": [{"id": 0, "comp": 10}], "edges": []}}],
            "hot": {"capacity": 10 ** 6, "rate": hr}, "cold": {"capacity": 10 ** 6 + 5, "rate": cr},
            "timestep": unit, "timestep_explicit": True}
    d = simgen.workdir("cfg")
    try:
        hot, cold = Config(simgen.write_case(spec, d)).parse_buffer_config()
    finally:
        simgen.rm_workdir(d)
    res["evaluations"] += 1
    res["nontrivial"] += 1
    bump(res["dist"], "fractional-limits:%s" % unit)
    if Fraction(hot[0].max_ingest_data_rate) != Fraction(hr) * m or Fraction(cold[0].max_data_rate) != Fraction(cr) * m:
        res["violations"].append({"prop": "C16", "kind": "unit-scaling", "sig": "unit-scaling:fractional-limits",
                                  "detail": "limits %s /s and %s /s under unit %s parsed as %s and %s (want %s and %s)" % (
                                      hr, cr, unit, fr(hot[0].max_ingest_data_rate), fr(cold[0].max_data_rate),
                                      Fraction(hr) * m, Fraction(cr) * m),
                                  "input": {"unit": unit, "hot_rate": hr, "cold_rate": cr}})


def c16_one_unit_run(rng, res):
    """A whole run of the same physical scenario under a coarser unit, with an observation that is exactly ONE
    unit long (its parsed duration is 1) and a data rate that is not a whole number per second: the run completes,
    the observation takes in round(rate x unit) per step for one step, as the seconds run takes in its volume."""
    unit = rng.choice(["minutes", 30, 60, 7, 2, 300, "hours"])
    m = {"minutes": 60, "hours": 3600}.get(unit, unit)
    # rates that are not whole per second - but never one whose product with the unit lies at a rounding boundary
    # (x.5): there the float product the parser rounds (2.05 * 30 = 61.49999999999999) and the exact product (61.5)
    # round differently, which is float arithmetic, not unit handling
    for _ in range(20):
        rate = rng.choice([1, 2, 0.5, 0.7, 2.4, 0.1, 1.13, 2.05, 0.3, 1.9])
        fracpart = (Fraction(str(rate)) * m) % 1
        if abs(fracpart - Fraction(1, 2)) > Fraction(1, 50):
            break
    else:
        rate = 1
    k = rng.choice([1, 1, 2, 3])
    spec = {"machines": [{"id": "m0", "flops": 10, "bw": 2}, {"id": "m1", "flops": 10, "bw": 2}], "system_bandwidth": 1,
            "total_arrays": 2, "max_ingest": 1,
            "observations": [{"name": "a", "start": 0, "duration": k * m, "demand": 1, "rate": rate, "ingest_demand": 1,
                              "workflow": {"nodes": [{"id": 0, "comp": 10 * m * rng.randint(1, 3)}], "edges": []}}],
            "hot": {"capacity": 10 ** 7, "rate": 10}, "cold": {"capacity": 10 ** 7 + 5, "rate": 5},
            "timestep": unit, "timestep_explicit": True, "planning": "batch", "scheduling": {"kind": "queue"}, "delay": None}
    inp = {"scenario": "a run with an observation of %d unit(s)" % k, "unit": unit, "rate": rate}
    res["evaluations"] += 1
    bump(res["dist"], "one-unit-run:%s" % unit)
    rec = runsim.run_spec(spec, max_steps=400)
    want_step = int(Fraction(round(Fraction(str(rate)) * m)))
    bad = None
    if rec.get("exception"):
        bad = "raised %s" % rec["exception"]["type"]
    elif rec.get("nonterminated"):
        bad = "did not finish within 400 steps"
    else:
        rows = rec["out"]["rows"]
        # the volume taken in: what the hot tier held at its fullest
        lows = [Fraction(str(r["hot_buffer"])) for r in rows if "hot_buffer" in r]
        taken = (10 ** 7 - min(lows)) if lows else None
        if taken is not None and taken != want_step * k:
            bad = "took in %s, round(rate x unit) x steps = %s" % (taken, want_step * k)
    if bad is None:
        res["nontrivial"] += 1
    else:
        res["violations"].append({"prop": "C16", "kind": "unit-scaling", "sig": "unit-scaling:one-unit-run",
                                  "detail": "under unit %s: %s" % (unit, bad), "input": inp})


def c16_realtime_cold(rng, res, props=("C16",)):
    """A "real time" cold tier (max_data_rate -1: the cold tier is an extension of the hot one, a move takes one
    step whatever the size) under every timestep unit: the marker is scaled with the other rates, and what the
    buffer does with it must not depend on the unit."""
    unit = rng.choice(["seconds", "minutes", "hours", 30, 7, 1, 300])
    m = {"seconds": 1, "minutes": 60, "hours": 3600}.get(unit, unit)
    size = rng.choice([5, 12, 60, 61, 3600])
    hot_cap, cold_cap = size + rng.choice([1, 50]), size + rng.choice([0, 40])
    spec = {"machines": [{"id": "m0", "flops": 10, "bw": 2}], "system_bandwidth": 1, "total_arrays": 4,
            "max_ingest": 1, "observations": [{"name": "a", "start": 0, "duration": m, "demand": 1, "rate": 1,
                                               "ingest_demand": 1, "workflow": {"nodes": [{"id": 0, "comp": 10}], "edges": []}}],
            "hot": {"capacity": hot_cap, "rate": rng.choice([1, 2, 5])}, "cold": {"capacity": cold_cap, "rate": -1},
            "timestep": unit, "timestep_explicit": True, "planning": "batch", "scheduling": {"kind": "queue"}, "delay": None}
    inp = {"scenario": "real-time cold tier (max_data_rate -1)", "unit": unit, "size": size, "hot_cap": hot_cap, "cold_cap": cold_cap}
    res["evaluations"] += 1
    bump(res["dist"], "realtime-cold:%s" % unit)
    try:
        h = runsim.SimHandle(spec)
    except Exception as e:   # noqa
        for pr in props:
            res["violations"].append({"prop": pr, "kind": "unit-scaling", "sig": "unit-scaling:realtime-cold-setup",
                                      "detail": "configuration with a real-time cold tier refused under unit %s: %s" % (unit, errname(e)), "input": inp})
        return
    try:
        buf, env = h.sim.buffer, h.env
        hot, cold = buf.hot[0], buf.cold[0]
        o = h.sim.instrument.observations[0]
        o.total_data_size = size
        hot.current_capacity -= size
        hot.observations["stored"].append(o)
        bad = []
        # every rate of the configuration is scaled by the unit, the real-time marker included (it stays negative)
        mach = h.sim.cluster.machines[0]
        if hot.max_ingest_data_rate != spec["hot"]["rate"] * m or not (cold.max_data_rate < 0) or \
                mach.cpu != 10 * m or mach.bandwidth != 2 * m or o.ingest_data_rate != 1 * m:
            bad.append("rates parsed as hot limit %s (want %s), cold %s (want negative), machine %s/%s (want %s/%s), data rate %s (want %s)" % (
                fr(hot.max_ingest_data_rate), spec["hot"]["rate"] * m, fr(cold.max_data_rate), fr(mach.cpu), fr(mach.bandwidth),
                10 * m, 2 * m, fr(o.ingest_data_rate), m))
        for direction, fn in (("hot->cold", buf.move_hot_to_cold), ("cold->hot", buf.move_cold_to_hot)):
            p = env.process(fn(0))
            steps = 0
            try:
                while not p.triggered and steps < 50:
                    env.run(until=env.now + 1)
                    steps += 1
            except Exception as e:   # noqa
                bad.append("%s raised %s" % (direction, errname(e)))
                break
            src, dst = (hot, cold) if direction == "hot->cold" else (cold, hot)
            if not p.triggered or p.value is not True:
                bad.append("%s not completed (%s steps)" % (direction, steps))
                break
            if steps > 2 or o not in dst.observations["stored"] or o in src.observations["stored"] or \
                    hot.current_capacity + cold.current_capacity != hot_cap + cold_cap - size or \
                    src.current_capacity != src.total_capacity:
                bad.append("%s: %s steps, hot free %s/%s, cold free %s/%s" % (
                    direction, steps, fr(hot.current_capacity), hot_cap, fr(cold.current_capacity), cold_cap))
                break
        if not bad:
            res["nontrivial"] += 1
        for b in bad:
            for pr in props:
                res["violations"].append({"prop": pr, "kind": "unit-scaling" if pr == "C16" else "tier-move-real-time-cold",
                                          "sig": "unit-scaling:realtime-cold" if pr == "C16" else "tier-move-real-time-cold",
                                          "detail": "under unit %s: %s (with 'seconds' the move is one step and exact)" % (unit, b), "input": inp})
    finally:
        h.close()


def c06_from_workflow_file(rng, res):
    """A whole (small) simulation whose workflow file carries demands that are not whole numbers (binary-exact
    fractions just below / above a multiple of the machine's speed): every task runs for
    max(1, floor(demand in the FILE / speed), floor(data / bandwidth)) steps - what the planner hands on must be
    the demand, not a rounded copy of it."""
    cpu, bw = rng.choice([2, 4, 5, 8, 10]), rng.choice([1, 2, 4, 0.5, 0.25])     # (a link may move less than one unit a step)
    nodes = []
    for j in range(rng.randint(1, 3)):
        k = rng.randint(1, 4)
        comp = k * cpu + rng.choice([-0.25, -0.5, -0.75, 0.25, 0.5, 0, -0.125])
        nd = {"id": j, "comp": comp}
        if rng.random() < 0.4:
            nd["task_data"] = rng.randint(1, 3) * bw + rng.choice([-0.5, -0.25, 0, 0.5])
        nodes.append(nd)
    edges = [[j, j + 1, 0] for j in range(len(nodes) - 1)]
    spec = {"machines": [{"id": "m0", "flops": cpu, "bw": bw}], "system_bandwidth": 1, "total_arrays": 2, "max_ingest": 1,
            "observations": [{"name": "a", "start": 0, "duration": 2, "demand": 1, "rate": 1, "ingest_demand": 1,
                              "workflow": {"nodes": nodes, "edges": edges}}],
            "hot": {"capacity": 100, "rate": 10}, "cold": {"capacity": 100, "rate": 10}, "timestep": "seconds",
            "planning": "batch", "scheduling": {"kind": rng.choice(["queue", "batch"]), "partitions": 1, "min": 1, "split": None},
            "delay": None}
    rec = runsim.run_spec(spec, max_steps=200)
    res["evaluations"] += 1
    bump(res["dist"], "fractional-demand-in-file")
    inp = {"scenario": "fractional demands in the workflow file", "cpu": cpu, "bw": bw, "nodes": nodes}
    if rec.get("exception") or rec.get("nonterminated") or not rec.get("out"):
        res["violations"].append({"prop": "C06", "kind": "run-with-fractional-demands-failed", "sig": "fractional-demand-run-failed",
                                  "detail": str(rec.get("exception") or "did not finish")[:200], "input": inp})
        return
    res["nontrivial"] += 1
    truth = rec["out"]["task_truth"]
    for nd in nodes:
        tids = [t for t in truth if "ingest" not in t and t.rsplit("_", 1)[-1] == str(nd["id"])]
        if len(tids) != 1:
            continue
        sp = Fraction(str(truth[tids[0]]["aft"])) - Fraction(str(truth[tids[0]]["ast"]))
        want = max(1, int(nd["comp"] // cpu), int(nd.get("task_data", 0) // bw))
        if sp != want:
            res["violations"].append({"prop": "C06", "kind": "span-not-runtime", "sig": "span-not-runtime:file-demand",
                                      "detail": "%s ran %s steps; demand %s / speed %s, data %s / bandwidth %s give %s" % (
                                          tids[0], sp, nd["comp"], cpu, nd.get("task_data", 0), bw, want), "input": inp})


# ---------------------------------------------------------------- C18
def check_c18(rng, n):
    """Buffer.move_hot_to_cold / move_cold_to_hot driven on a real SimPy env."""
    import simpy
    res = result()
    drv = Driver()
    try:
        for i in range(n):
            hot_rate, cold_rate = rng.choice([1, 2, 3, 5, 8]), rng.choice([1, 2, 3, 5, 8])
            size = rng.choice([1, 2, 3, 7, 10, 12, 16, 25])
            hot_cap = size + rng.choice([1, 5, 50])
            cold_cap = rng.choice([size - 1, size, size + 3, 4 * size]) if rng.random() < 0.35 else size + rng.randint(0, 30)
            cold_cap = max(1, cold_cap)
            spec = {"machines": [{"id": "m0", "flops": 10, "bw": 2}], "system_bandwidth": 1, "total_arrays": 4,
                    "max_ingest": 1, "observations": [{"name": "a", "start": 0, "duration": 1, "demand": 1, "rate": 1,
                                                       "ingest_demand": 1, "workflow": {"nodes": [{"id": 0, "comp": 10}], "edges": []}}],
                    "hot": {"capacity": hot_cap, "rate": hot_rate}, "cold": {"capacity": cold_cap, "rate": cold_rate},
                    "timestep": "seconds", "planning": "batch", "scheduling": {"kind": "queue"}, "delay": None}
            h = runsim.SimHandle(spec)
            try:
                buf, env = h.sim.buffer, h.env
                hot, cold = buf.hot[0], buf.cold[0]
                o = h.sim.instrument.observations[0]
                o.total_data_size = size
                hot.current_capacity -= size
                hot.observations["stored"].append(o)
                drv.ask({"op": "bufinit", "hot_cap": hot_cap, "hot_rate": hot_rate, "cold_cap": cold_cap, "cold_rate": cold_rate})
                for k in range(size):
                    pass
                # bring the model to the same state: deposits of `size` in chunks <= hot_rate, then store
                left = size
                while left > 0:
                    c = min(left, hot_rate)
                    drv.ask({"op": "bufop", "b": "deposit", "o": 0, "rate": c})
                    left -= c
                drv.ask({"op": "bufop", "b": "store", "o": 0, "now": 0})
                rate = min(hot_rate, cold_rate)
                inp = {"size": size, "hot_rate": hot_rate, "cold_rate": cold_rate, "hot_cap": hot_cap, "cold_cap": cold_cap}
                res["evaluations"] += 1
                bump(res["dist"], "hot-slower" if hot_rate < cold_rate else "cold-slower" if cold_rate < hot_rate else "equal")

                def drive(gen_fn, src, dst):
                    """returns ('steps', n) | ('refused',) | ('raise', name); checks conservation per step"""
                    p = env.process(gen_fn(0))
                    steps = 0
                    tot0 = hot.current_capacity + cold.current_capacity
                    try:
                        while not p.triggered:
                            before = (hot.current_capacity, cold.current_capacity)
                            env.run(until=env.now + 1)
                            after = (hot.current_capacity, cold.current_capacity)
                            if sum(after) != tot0:
                                res["violations"].append({"prop": "C18", "kind": "tier-move-not-conserving",
                                                          "sig": "tier-move-not-conserving",
                                                          "detail": "%s -> %s" % (before, after), "input": inp})
                            if after != before:
                                steps += 1
                                moved = abs(after[0] - before[0])
                                if moved > rate:
                                    res["violations"].append({"prop": "C18", "kind": "tier-move-faster-than-slower-tier",
                                                              "sig": "tier-move-rate", "detail": "moved %s rate %s" % (moved, rate), "input": inp})
                            if steps > 10 * size + 10:
                                return ("hang",)
                    except Exception as e:   # noqa
                        return ("raise", errname(e))
                    if p.value is False:
                        return ("refused",)
                    return ("steps", steps)

                def state():
                    return "hot=%s/%s hs=%s ht=%s cold=%s/%s cs=%s ct=%s" % (
                        fr(hot.current_capacity), fr(hot.total_capacity), [0 for _ in hot.observations["stored"]],
                        "-" if hot.observations["transfer"] is None else 0,
                        fr(cold.current_capacity), fr(cold.total_capacity), [0 for _ in cold.observations["stored"]],
                        "-" if cold.observations["transfer"] is None else 0)

                def model_state(line):
                    # "… || hot=a/b hs=[..] ht=- hsch=[] hfin=[] cold=c/d cs=[..] ct=- …"
                    body = line.split(" || ")[1].split(" ")
                    d = dict(x.split("=", 1) for x in body if "=" in x)
                    def lst(s):
                        return [0 for x in s.strip("[]").split(",") if x != ""]
                    return "hot=%s hs=%s ht=%s cold=%s cs=%s ct=%s" % (d["hot"], lst(d["hs"]), d["ht"], d["cold"], lst(d["cs"]), d["ct"])

                refuse_c2h = rng.random() < 0.35
                for direction in ("h2c", "c2h"):
                    if direction == "c2h" and refuse_c2h and cold.observations["stored"]:
                        # fill the hot tier so that the observation does not fit back: the move must be refused
                        fill = hot.current_capacity - rng.randint(0, size - 1)
                        if fill > 0:
                            hot.current_capacity -= fill
                            left = fill
                            while left > 0:
                                c = min(left, hot_rate)
                                drv.ask({"op": "bufop", "b": "deposit", "o": 1, "rate": c})
                                left -= c
                            bump(res["dist"], "c2h-should-be-refused")
                    pre = (hot.current_capacity, cold.current_capacity)
                    pre_lists = (list(hot.observations["stored"]), list(cold.observations["stored"]))
                    if direction == "h2c":
                        if not hot.observations["stored"]:
                            break
                        out = drive(buf.move_hot_to_cold, hot, cold)
                    else:
                        if not cold.observations["stored"]:
                            break
                        out = drive(buf.move_cold_to_hot, cold, hot)
                    got = drv.ask({"op": "bufop", "b": direction})
                    impl_out = {"steps": "steps %s" % (out[1] if len(out) > 1 else ""), "refused": "refused",
                                "raise": out[1] if len(out) > 1 else "", "hang": "hang"}[out[0]]
                    if got.split(" || ")[0] != impl_out or model_state(got) != state().replace("hot=", "hot=", 1):
                        res["diffs"].append({"input": dict(inp, direction=direction), "impl": impl_out + " || " + state(),
                                             "model": got.split(" || ")[0] + " || " + model_state(got)})
                    res["evaluations"] += 1          # every attempted tier move is one evaluation of C18
                    if out[0] == "steps":
                        res["nontrivial"] += 1
                        if out[1] != math.ceil(size / rate):
                            res["violations"].append({"prop": "C18", "kind": "tier-move-step-count", "sig": "tier-move-steps",
                                                      "detail": "%s steps, ceil(%s/%s)=%s" % (out[1], size, rate, math.ceil(size / rate)),
                                                      "input": dict(inp, direction=direction)})
                        src, dst = (hot, cold) if direction == "h2c" else (cold, hot)
                        ok = (o in dst.observations["stored"] and o not in src.observations["stored"]
                              and src.observations["transfer"] is None and dst.observations["transfer"] is None)
                        d_hot = hot.current_capacity - pre[0]
                        d_cold = cold.current_capacity - pre[1]
                        want = (size, -size) if direction == "h2c" else (-size, size)
                        if not ok or (d_hot, d_cold) != want:
                            res["violations"].append({"prop": "C18", "kind": "tier-move-end-state", "sig": "tier-move-end-state",
                                                      "detail": "stored-in-dst-only=%s free-space deltas %s want %s" % (ok, (d_hot, d_cold), want),
                                                      "input": dict(inp, direction=direction)})
                    elif out[0] == "refused":
                        bump(res["dist"], "refused")
                        if (hot.current_capacity, cold.current_capacity) != pre or \
                                (list(hot.observations["stored"]), list(cold.observations["stored"])) != pre_lists or \
                                hot.observations["transfer"] is not None or cold.observations["transfer"] is not None:
                            res["violations"].append({"prop": "C18", "kind": "refused-move-changed-state", "sig": "tier-move-refused-changed",
                                                      "detail": "", "input": dict(inp, direction=direction)})
                        break
                    else:
                        res["violations"].append({"prop": "C18", "kind": "tier-move-raised", "sig": "tier-move-raised:" + str(out[1:]),
                                                  "detail": str(out), "input": dict(inp, direction=direction)})
                        break
                if len(res["samples"]) < 3:
                    res["samples"].append({"input": inp, "final": state()})
            finally:
                h.close()
            if i % 3 == 0:
                c18_overlap(rng, res)
            if i % 3 == 1:
                c18_overlap_h2c(rng, res)
            if i % 3 == 2:
                c18_into_partly_filled(rng, res)
            if i % 5 == 0:
                # a "real time" cold tier (max_data_rate -1), every unit, there and back
                c16_realtime_cold(rng, res, props=("C18",))
    finally:
        drv.close()
    return res


def c18_into_partly_filled(rng, res):
    """One move after the other into a tier that already holds data: the move is accepted iff the observation
    fits into what is FREE there (not into the tier's total size); a refused move changes nothing."""
    direction = rng.choice(["h2c", "h2c", "c2h"])
    hot_rate, cold_rate = rng.choice([2, 4, 5, 10]), rng.choice([1, 2, 4, 5, 10])
    sa = rng.choice([5, 12, 30])
    dst_cap = sa + rng.choice([3, 10, 25])
    free = dst_cap - sa
    sb = max(1, rng.choice([free - 1, free, free + 1, dst_cap, dst_cap - 1, 1]))
    src_cap = sb + rng.choice([0, 10, 100])
    if direction == "h2c":
        hot_cap, cold_cap = src_cap, dst_cap
    else:
        hot_cap, cold_cap = dst_cap, src_cap
    spec = {"machines": [{"id": "m0", "flops": 10, "bw": 2}], "system_bandwidth": 1, "total_arrays": 4,
            "max_ingest": 1, "observations": [{"name": nm, "start": 0, "duration": 1, "demand": 1, "rate": 1,
                                               "ingest_demand": 1, "workflow": {"nodes": [{"id": 0, "comp": 10}], "edges": []}}
                                              for nm in "ab"],
            "hot": {"capacity": hot_cap, "rate": hot_rate}, "cold": {"capacity": cold_cap, "rate": cold_rate},
            "timestep": "seconds", "planning": "batch", "scheduling": {"kind": "queue"}, "delay": None}
    inp = {"scenario": "move-into-partly-filled-tier", "direction": direction, "resident": sa, "moved": sb,
           "hot_cap": hot_cap, "cold_cap": cold_cap, "hot_rate": hot_rate, "cold_rate": cold_rate}
    h = runsim.SimHandle(spec)
    try:
        buf, env = h.sim.buffer, h.env
        hot, cold = buf.hot[0], buf.cold[0]
        A, B = h.sim.instrument.observations
        A.total_data_size, B.total_data_size = sa, sb
        src, dst = (hot, cold) if direction == "h2c" else (cold, hot)
        dst.observations["stored"].append(A)
        dst.current_capacity -= sa
        src.observations["stored"].append(B)
        src.current_capacity -= sb
        pre = (hot.current_capacity, cold.current_capacity)
        p = env.process((buf.move_hot_to_cold if direction == "h2c" else buf.move_cold_to_hot)(0))
        low = dst.current_capacity
        raised = None
        for _ in range(20 * sb + 20):
            if p.triggered:
                break
            try:
                env.run(until=env.now + 1)
            except Exception as e:   # noqa
                raised = errname(e)
                break
            low = min(low, dst.current_capacity)
        res["evaluations"] += 1
        fits = sb <= free
        bump(res["dist"], "partly-filled-%s-%s" % (direction, "fits" if fits else "too-big"))
        bad = []
        if raised:
            bad.append("raised %s" % raised)
        elif not p.triggered:
            bad.append("the move never completed")
        else:
            accepted = p.value is True
            if accepted:
                res["nontrivial"] += 1
            if accepted != fits:
                bad.append("move of %s into %s free of %s total was %s" % (
                    sb, free, dst_cap, "accepted" if accepted else "refused"))
            if not accepted and ((hot.current_capacity, cold.current_capacity) != pre or B not in src.observations["stored"]
                                 or B in dst.observations["stored"]):
                bad.append("a refused move changed the tiers")
            if accepted and fits and (B not in dst.observations["stored"] or B in src.observations["stored"]
                                      or dst.current_capacity != free - sb or src.current_capacity != src_cap):
                bad.append("end state after the move: dst free %s (want %s), src free %s (want %s)" % (
                    fr(dst.current_capacity), free - sb, fr(src.current_capacity), src_cap))
        if low < 0:
            bad.append("free space of the destination fell to %s" % fr(low))
        for b in bad:
            for pr in (("C18", "C07") if "fell to" in b else ("C18",)):
                res["violations"].append({"prop": pr, "kind": "tier-move-into-partly-filled-tier",
                                          "sig": "tier-move-partly-filled:" + b.split()[0], "detail": b, "input": inp})
    finally:
        h.close()


def c18_overlap(rng, res):
    """A cold->hot move requested while another one is still in flight: it must be refused unless the hot
    tier has room for it on top of what is still owed to the move in flight (never over-committed)."""
    hot_rate, cold_rate = rng.choice([2, 5, 10]), rng.choice([2, 5, 10, 20])
    sb, sc, sd = rng.choice([5, 10, 30]), rng.choice([10, 20, 30]), rng.choice([0, 20, 50])
    hot_cap = sd + rng.choice([sc, sc + sb - 1, sc + sb, sc + sb + 10, sc + 5])
    cold_cap = sb + sc + rng.choice([0, 50])
    spec = {"machines": [{"id": "m0", "flops": 10, "bw": 2}], "system_bandwidth": 1, "total_arrays": 4,
            "max_ingest": 1, "observations": [{"name": nm, "start": 0, "duration": 1, "demand": 1, "rate": 1,
                                               "ingest_demand": 1, "workflow": {"nodes": [{"id": 0, "comp": 10}], "edges": []}}
                                              for nm in "bcd"],
            "hot": {"capacity": hot_cap, "rate": hot_rate}, "cold": {"capacity": cold_cap, "rate": cold_rate},
            "timestep": "seconds", "planning": "batch", "scheduling": {"kind": "queue"}, "delay": None}
    inp = {"scenario": "overlapping-c2h", "sizes": [sb, sc, sd], "hot_cap": hot_cap, "cold_cap": cold_cap,
           "hot_rate": hot_rate, "cold_rate": cold_rate}
    h = runsim.SimHandle(spec)
    try:
        buf, env = h.sim.buffer, h.env
        hot, cold = buf.hot[0], buf.cold[0]
        B, C, D = h.sim.instrument.observations
        for o, sz in ((B, sb), (C, sc), (D, sd)):
            o.total_data_size = sz
        cold.observations["stored"] += [B, C]
        cold.current_capacity -= sb + sc
        if sd:
            hot.observations["stored"].append(D)
            hot.current_capacity -= sd
        tot0 = hot.current_capacity + cold.current_capacity
        p1 = env.process(buf.move_cold_to_hot(0))
        env.run(until=env.now + 1)
        p2 = env.process(buf.move_cold_to_hot(0))
        minhot = hot.current_capacity
        for _ in range(300):
            if p1.triggered and p2.triggered:
                break
            try:
                env.run(until=env.now + 1)
            except Exception as e:   # noqa
                res["violations"].append({"prop": "C18", "kind": "tier-move-raised", "sig": "tier-move-raised:overlap",
                                          "detail": errname(e), "input": inp})
                break
            minhot = min(minhot, hot.current_capacity)
            if hot.current_capacity + cold.current_capacity != tot0:
                res["violations"].append({"prop": "C18", "kind": "tier-move-not-conserving", "sig": "tier-move-not-conserving",
                                          "detail": "overlapping moves: %s + %s != %s" % (
                                              fr(hot.current_capacity), fr(cold.current_capacity), fr(tot0)), "input": inp})
                break
        res["evaluations"] += 1
        accepted = p2.triggered and p2.value is True
        bump(res["dist"], "overlap-accepted" if accepted else "overlap-refused")
        if accepted:
            res["nontrivial"] += 1
        if minhot < 0:
            for pr in ("C18", "C07"):
                res["violations"].append({"prop": pr, "kind": "tier-move-accepted-without-room", "sig": "tier-move-accepted-without-room",
                                          "detail": "hot free space fell to %s" % fr(minhot), "input": inp})
    finally:
        h.close()


def c18_overlap_h2c(rng, res):
    """Two hot->cold moves in flight at once (the buffer loop starts one per step): each observation must end
    up stored in exactly one tier, free space adjusted by exactly the sizes moved, nothing lost on the way."""
    hot_rate, cold_rate = rng.choice([2, 4, 5, 10]), rng.choice([1, 2, 4, 5, 10])
    s1, s2, s3 = rng.choice([5, 12, 30]), rng.choice([5, 12, 20]), rng.choice([0, 5])
    hot_cap = s1 + s2 + s3 + rng.choice([0, 10])
    cold_cap = s1 + s2 + rng.choice([0, 5, 50])
    gap = rng.choice([1, 2])
    spec = {"machines": [{"id": "m0", "flops": 10, "bw": 2}], "system_bandwidth": 1, "total_arrays": 4,
            "max_ingest": 1, "observations": [{"name": nm, "start": 0, "duration": 1, "demand": 1, "rate": 1,
                                               "ingest_demand": 1, "workflow": {"nodes": [{"id": 0, "comp": 10}], "edges": []}}
                                              for nm in "bcd"],
            "hot": {"capacity": hot_cap, "rate": hot_rate}, "cold": {"capacity": cold_cap, "rate": cold_rate},
            "timestep": "seconds", "planning": "batch", "scheduling": {"kind": "queue"}, "delay": None}
    inp = {"scenario": "overlapping-h2c", "sizes": [s1, s2, s3], "hot_cap": hot_cap, "cold_cap": cold_cap,
           "hot_rate": hot_rate, "cold_rate": cold_rate, "gap": gap}
    h = runsim.SimHandle(spec)
    try:
        buf, env = h.sim.buffer, h.env
        hot, cold = buf.hot[0], buf.cold[0]
        B, C, D = h.sim.instrument.observations
        for o, sz in ((B, s1), (C, s2), (D, s3)):
            o.total_data_size = sz
        hot.observations["stored"] += ([D, B, C] if s3 else [B, C])
        hot.current_capacity -= s1 + s2 + s3
        tot0 = hot.current_capacity + cold.current_capacity
        p1 = env.process(buf.move_hot_to_cold(0))      # moves C (the last stored)
        env.run(until=env.now + gap)
        p2 = env.process(buf.move_hot_to_cold(0))      # moves B while C is in flight
        bad = []
        for _ in range(500):
            if p1.triggered and p2.triggered:
                break
            try:
                env.run(until=env.now + 1)
            except Exception as e:   # noqa
                bad.append("raised %s" % errname(e))
                break
            if hot.current_capacity + cold.current_capacity != tot0:
                bad.append("hot+cold free space changed during the moves")
                break
        res["evaluations"] += 1
        acc1 = p1.triggered and p1.value is True
        acc2 = p2.triggered and p2.value is True
        bump(res["dist"], "h2c-overlap-both" if (acc1 and acc2) else "h2c-overlap-one")
        if acc1 and acc2:
            res["nontrivial"] += 1
        where = lambda o: int(o in hot.observations["stored"]) + int(o in cold.observations["stored"])
        if not bad and p1.triggered and p2.triggered:
            if where(B) != 1 or where(C) != 1:
                bad.append("an observation is stored in %d / %d tiers (want 1 / 1)" % (where(B), where(C)))
            if (C in cold.observations["stored"]) != acc1 or (B in cold.observations["stored"]) != acc2:
                bad.append("an accepted move did not leave its observation in the cold tier")
            if hot.observations["transfer"] is not None or cold.observations["transfer"] is not None:
                bad.append("transfer slot still occupied after both moves ended")
            want_cold = cold_cap - (s2 if acc1 else 0) - (s1 if acc2 else 0)
            if cold.current_capacity != want_cold:
                bad.append("cold free space %s, want %s" % (fr(cold.current_capacity), want_cold))
        for b_ in bad:
            for pr in ("C18", "C07"):
                res["violations"].append({"prop": pr, "kind": "overlapping-moves-end-state", "sig": "tier-move-overlap:" + b_.split()[0],
                                          "detail": b_, "input": inp})
    finally:
        h.close()


# ---------------------------------------------------------------- C14
def check_c14(rng, n):
    import networkx as nx
    res = result()
    for i in range(n):
        wf = simgen.gen_workflow(rng, max_nodes=8, speeds=(10,))
        if rng.random() < 0.3:
            # fractional (binary-exact) demands must be copied as they are
            for nd in wf["nodes"]:
                if rng.random() < 0.6:
                    nd["comp"] = nd["comp"] + rng.choice([0.5, 0.25])
                if rng.random() < 0.3:
                    nd["task_data"] = rng.choice([0.5, 2.5, 7.75])
        if rng.random() < 0.25 and len(wf["nodes"]) >= 2:
            # string node labels as the workflow translators emit them ('c<channel>_<index>'), chosen so that
            # they collide once their underscores are dropped
            pool = ["c1_10", "c11_0", "c1_1", "c11", "c_11", "c2_3", "c23", "c2_30", "c23_0", "c0_0"]
            ids = [nd["id"] for nd in wf["nodes"]]
            lab = dict(zip(ids, rng.sample(pool, len(ids)))) if len(ids) <= len(pool) else None
            if lab:
                for nd in wf["nodes"]:
                    nd["id"] = lab[nd["id"]]
                wf["edges"] = [[lab[e[0]], lab[e[1]], e[2]] for e in wf["edges"]]
        name = rng.choice(["a", "obs1", "emu", "emu_b"])
        spec = {"machines": [{"id": "m0", "flops": 10, "bw": 2}], "system_bandwidth": 1, "total_arrays": 4,
                "max_ingest": 1, "observations": [{"name": name, "start": 0, "duration": 2, "demand": 1, "rate": 1,
                                                   "ingest_demand": 1, "workflow": wf}],
                "hot": {"capacity": 100, "rate": 5}, "cold": {"capacity": 100, "rate": 5},
                "timestep": "seconds", "planning": "batch", "scheduling": {"kind": "queue"}, "delay": None}
        h = runsim.SimHandle(spec)
        try:
            sim = h.sim
            o = sim.instrument.observations[0]
            clock = rng.randint(0, 50)
            h.env._now = clock
            plan = sim.planner.run(o, sim.buffer, None)
            with open(o.workflow) as f:
                g = nx.readwrite.node_link_graph(json.load(f)["graph"])
            res["evaluations"] += 1
            if len(wf["edges"]) > 0:
                res["nontrivial"] += 1
            bump(res["dist"], "nodes=%d" % len(wf["nodes"]))
            inp = {"workflow": wf, "name": name, "clock": clock}
            bad = []
            ids = [t.id for t in plan.tasks]
            want_ids = {n_: "%s_%s_%s" % (name, clock, n_) for n_ in g.nodes}
            if len(ids) != len(g.nodes) or len(set(ids)) != len(ids) or set(ids) != set(want_ids.values()):
                bad.append("not one uniquely named task per node")
            byid = {t.id: t for t in plan.tasks}
            for n_ in g.nodes:
                t = byid.get(want_ids[n_])
                if t is None:
                    continue
                if t.flops != g.nodes[n_]["comp"] or t.task_data != g.nodes[n_].get("task_data", 0):
                    bad.append("demands not copied")
                if sorted(t.pred) != sorted(want_ids[p] for p in g.predecessors(n_)):
                    bad.append("predecessor list differs")
                if t.io != {want_ids[p]: g.edges[p, n_]["transfer_data"] for p in g.predecessors(n_)}:
                    bad.append("edge volumes differ")
            pe = sorted((u.id, v.id) for u, v in plan.graph.edges)
            if pe != sorted((want_ids[u], want_ids[v]) for u, v in g.edges):
                bad.append("edges differ")
            pos = {t.id: k for k, t in enumerate(plan.tasks)}
            if any(pos[u.id] >= pos[v.id] for u, v in plan.graph.edges):
                bad.append("tasks not in topological order")
            if sorted(x.id for x in plan.graph.nodes) != sorted(ids):
                bad.append("graph nodes are not the plan's tasks")
            try:
                for t in plan.tasks:
                    preds = [x.id for x in plan.get_task_predecessors(t)]
                    for p in plan.tasks:
                        succ = [x.id for x in plan.get_task_successors(p)]
                        if (p.id in preds) != (t.id in succ):
                            bad.append("predecessor/successor queries disagree")
                            break
            except Exception as e:   # noqa
                bad.append("queries raise %s" % type(e).__name__)
            # the networkx contract the Lean model assumes (IsTopo)
            topo = list(nx.algorithms.topological_sort(g))
            ipos = {n_: k for k, n_ in enumerate(topo)}
            if sorted(topo) != sorted(g.nodes) or any(ipos[u] >= ipos[v] for u, v in g.edges):
                bad.append("networkx topological_sort contract broken")
            for b in sorted(set(bad)):
                res["violations"].append({"prop": "C14", "kind": "plan-not-faithful", "sig": "plan:" + b.split()[0],
                                          "detail": b, "input": inp})
            if len(res["samples"]) < 2:
                res["samples"].append({"input": inp, "tasks": ids})
        finally:
            h.close()
    return res


# ---------------------------------------------------------------- C11
def check_c11(rng, n, thorough=False):
    res = result()
    for i in range(n):
        spec = simgen.gen_spec(rng, small=True)
        if i % 3 == 1:
            # several observations leaving the telescope in the same step: at the pause point right after it the
            # telescope is idle while the buffer still holds observations the scheduler has not taken yet
            nobs = rng.randint(2, 3)
            d = rng.randint(1, 3)
            t0 = rng.choice([0, 0, 0, 2])
            nobs = 3 if t0 else nobs
            base = spec["observations"][0]
            spec["observations"] = [dict(base, name="abc"[j], start=t0, duration=d, demand=1, ingest_demand=1,
                                         rate=max(1, min(base["rate"], 3)),
                                         workflow=simgen.gen_workflow(rng, 3, [m["flops"] for m in spec["machines"]]))
                                    for j in range(nobs)]
            while len(spec["machines"]) < nobs:
                spec["machines"].append({"id": "mx%d" % len(spec["machines"]), "flops": 10, "bw": 2})
            spec["total_arrays"] = max(spec["total_arrays"], nobs)
            spec["max_ingest"] = nobs
            tot = sum(o["rate"] * o["duration"] for o in spec["observations"])
            spec["hot"]["capacity"] = int(tot / 0.6) + 5
            spec["hot"]["rate"] = max(spec["hot"]["rate"], 3)
            spec["cold"]["capacity"] = spec["hot"]["capacity"] + 5
            if spec["scheduling"]["kind"] == "batch":
                spec["scheduling"] = {"kind": "batch", "partitions": 1, "min": 1, "split": None}
        if i % 4 == 3:
            # a pause while one observation is ingesting; later two observations fall due in the same step, each within
            # the ingest-machine limit alone, not together: the scheduler's count of machines promised to ingest
            # must survive the pause, or the second one is let in at once
            base = spec["observations"][0]
            wf = lambda: simgen.gen_workflow(rng, 3, [m["flops"] for m in spec["machines"]])
            da = rng.randint(2, 4)
            t1 = da + rng.randint(2, 4)
            dc, dd = rng.choice([(1, 2), (2, 1), (2, 2)])
            spec["observations"] = [
                dict(base, name="a", start=0, duration=da, demand=1, ingest_demand=1, rate=1, workflow=wf()),
                dict(base, name="c", start=t1, duration=rng.randint(1, 3), demand=1, ingest_demand=dc, rate=1, workflow=wf()),
                dict(base, name="d", start=t1, duration=rng.randint(1, 3), demand=1, ingest_demand=dd, rate=1, workflow=wf())]
            spec["machines"] = [{"id": "m%d" % j, "flops": 10, "bw": 2} for j in range(rng.randint(5, 8))]
            spec["max_ingest"] = max(dc, dd) + rng.randint(0, min(dc, dd) - 1)
            spec["total_arrays"] = max(spec["total_arrays"], 3)
            spec["hot"]["capacity"], spec["hot"]["rate"] = 200, max(spec["hot"]["rate"], 3)
            spec["cold"]["capacity"] = 205
            spec["delay"] = None
            if spec["scheduling"]["kind"] in ("dynamic", "greedy"):
                spec["planning"], spec["scheduling"] = "batch", {"kind": "queue"}
            if spec["scheduling"]["kind"] == "batch":
                spec["scheduling"] = {"kind": "batch", "partitions": 1, "min": 1, "split": None}
        full0 = runsim.run_spec(spec, max_steps=300)
        if full0["exception"] or full0["nonterminated"]:
            continue
        T = full0["end"]
        if not isinstance(T, int) or T < 2:
            continue
        full = runsim.run_spec(spec, until=T)
        ks = list(range(1, T)) if (thorough or T <= 12) else sorted(rng.sample(range(1, T), 10))
        # always pause around the moments observations leave the telescope
        for o in spec["observations"]:
            for k_ in (o["start"] + o["duration"], o["start"] + o["duration"] + 1, o["start"] + o["duration"] + 2):
                if 1 <= k_ < T and k_ not in ks and len(ks) < 16:
                    ks.append(k_)
        # ... and inside every planned ingest window (what is promised to an ingest must survive a pause)
        for o in spec["observations"]:
            k_ = o["start"] + 1
            if 1 <= k_ < T and k_ not in ks and len(ks) < 20:
                ks.append(k_)
        ks = sorted(set(ks))
        for k in ks:
            segs = []
            cur = k
            while cur < T:
                cur = min(T, cur + rng.randint(1, max(1, T - cur)))
                segs.append(cur)
            if not segs:
                segs = [T]
            part = runsim.run_spec(spec, until=k, resume=segs)
            res["evaluations"] += 1
            if len(segs) > 1 and k % 3 == 0:
                # the state seen at a pause reached through resume() is that of one uninterrupted run of m steps
                m = segs[0]
                mid = runsim.run_spec(spec, until=k, resume=[m])
                ref = runsim.run_spec(spec, until=m)
                res["evaluations"] += 1
                for key in ("rows", "events", "tasks", "task_order"):
                    if mid["out"][key] != ref["out"][key]:
                        res["violations"].append({"prop": "C11", "kind": "paused-run-differs", "sig": "paused-run-differs:mid:" + key,
                                                  "detail": "start(%s)+resume(%s) differs from start(%s) in %s" % (k, m, m, key),
                                                  "input": {"spec": spec, "k": k, "segments": [m], "T": m}})
                        break
            if len(segs) > 1:
                res["nontrivial"] += 1
            bump(res["dist"], "segments=%d" % min(4, len(segs)))
            for key in ("rows", "events", "tasks", "task_order"):
                if part["out"][key] != full["out"][key]:
                    res["violations"].append({"prop": "C11", "kind": "paused-run-differs", "sig": "paused-run-differs:" + key,
                                              "detail": "k=%s segments=%s T=%s" % (k, segs, T),
                                              "input": {"spec": spec, "k": k, "segments": segs, "T": T}})
                    if key == "rows":
                        # two runs through the same states report different rows: one of the tables is not the state
                        res["violations"].append({"prop": "C12", "kind": "rows-differ-after-pause", "sig": "rows-differ-after-pause",
                                                  "detail": "the per-timestep table of a run paused at %s differs from the uninterrupted run's" % k,
                                                  "input": {"spec": spec, "k": k, "segments": segs, "T": T}})
                    break
            if part["end"] != full["end"]:
                res["violations"].append({"prop": "C11", "kind": "paused-run-differs", "sig": "paused-run-differs:end",
                                          "detail": "", "input": {"spec": spec, "k": k, "segments": segs, "T": T}})
        # refused calls
        h = runsim.SimHandle(spec)
        try:
            sim = h.sim
            try:
                sim.resume(until=3)
                res["violations"].append({"prop": "C11", "kind": "resume-before-start-accepted", "sig": "resume-before-start",
                                          "detail": "", "input": {"spec": spec}})
            except RuntimeError:
                if h.env.now != 0 or sim.running:
                    res["violations"].append({"prop": "C11", "kind": "refused-call-changed-state", "sig": "refused-changed",
                                              "detail": "", "input": {"spec": spec}})
            sim.start(runtime=2)
            before = (h.env.now, len(sim.monitor.df), len(sim.monitor.events))
            # the run-until-finished form of start() is a pause point like any other
            h2 = runsim.SimHandle(spec)
            try:
                s2 = h2.sim
                s2.start()
                T2 = h2.env.now
                try:
                    s2.resume(until=T2 + 2)
                    ref = runsim.run_spec(spec, until=int(T2) + 2)
                    got = runsim.outputs(s2)
                    if len(got["rows"]) != int(T2) + 2:
                        res["violations"].append({"prop": "C12", "kind": "row-count-after-finish", "sig": "row-count-after-finish",
                                                  "detail": "start(); resume(%s): %d rows for %s simulated timesteps" % (
                                                      int(T2) + 2, len(got["rows"]), int(T2) + 2), "input": {"spec": spec}})
                    if got["rows"] != ref["out"]["rows"] or got["events"] != ref["out"]["events"]:
                        res["violations"].append({"prop": "C11", "kind": "paused-run-differs", "sig": "paused-run-differs:after-completion",
                                                  "detail": "start(); resume(T+2) differs from start(T+2)", "input": {"spec": spec}})
                except RuntimeError as e:
                    res["violations"].append({"prop": "C11", "kind": "resume-after-completed-start-refused", "sig": "resume-refused-after-start",
                                              "detail": repr(e)[:120], "input": {"spec": spec}})
                n_before = (h2.env.now, len(s2.monitor.df))
                try:
                    s2.start()
                    res["violations"].append({"prop": "C11", "kind": "second-start-accepted", "sig": "second-start-after-completion",
                                              "detail": "", "input": {"spec": spec}})
                except RuntimeError:
                    if (h2.env.now, len(s2.monitor.df)) != n_before:
                        res["violations"].append({"prop": "C11", "kind": "refused-call-changed-state", "sig": "refused-changed",
                                                  "detail": "", "input": {"spec": spec}})
            finally:
                h2.close()
            try:
                sim.start(runtime=4)
                res["violations"].append({"prop": "C11", "kind": "second-start-accepted", "sig": "second-start",
                                          "detail": "", "input": {"spec": spec}})
            except RuntimeError:
                if (h.env.now, len(sim.monitor.df), len(sim.monitor.events)) != before:
                    res["violations"].append({"prop": "C11", "kind": "refused-call-changed-state", "sig": "refused-changed",
                                              "detail": "", "input": {"spec": spec}})
            res["evaluations"] += 1
        finally:
            h.close()
        if len(res["samples"]) < 2:
            res["samples"].append({"T": T, "pause_points": ks[:6], "pairing": spec["scheduling"]["kind"]})
    return res


# ---------------------------------------------------------------- C10
WORKER = r'''
import sys, json
sys.path.insert(0, %r)
import runsim
for line in sys.stdin:
    spec = json.loads(line)
    rec = runsim.run_spec(spec, max_steps=400)
    print(json.dumps([rec["end"], rec["out"], rec["exception"] and rec["exception"]["type"]], sort_keys=True), flush=True)
''' % os.path.dirname(os.path.abspath(__file__))


def check_c10(rng, n, hashseeds=("0", "1", "2")):
    res = result()
    workers = []
    try:
        for hs in hashseeds:
            env = dict(os.environ, PYTHONHASHSEED=hs)
            workers.append(subprocess.Popen([sys.executable, "-c", WORKER], env=env, stdin=subprocess.PIPE,
                                            stdout=subprocess.PIPE, stderr=subprocess.DEVNULL, text=True, bufsize=1))
        for i in range(n):
            # stratified by index so that every run has its share of each shape, whatever the seed
            shape = ("batch", "tie", "delay", "any", "greedy", "batchseq")[i % 6]
            spec = simgen.gen_spec(rng, pairing="batch" if shape in ("batch", "batchseq") else
                                   rng.choice(["batch", "queue"]) if shape == "delay" else
                                   rng.choice(["batch", "queue", "dynamic", "greedy"]))
            # many simultaneously ready tasks on heterogeneous machines make order matter
            if shape in ("batch", "delay", "batchseq") or rng.random() < 0.7:
                nm = rng.randint(3, 6)
                spec["machines"] = [{"id": "m%d" % k, "flops": f, "bw": rng.choice([1, 2, 4])}
                                    for k, f in enumerate(rng.sample([2, 4, 5, 8, 10, 20, 40], nm))]
                spec["max_ingest"] = min(spec["max_ingest"], nm)
                for o in spec["observations"]:
                    o["workflow"] = simgen.gen_workflow(rng, 7, [m["flops"] for m in spec["machines"]],
                                                        shape=rng.choice(["fan", "diamond", "random"]))
                    o["ingest_demand"] = min(o["ingest_demand"], spec["max_ingest"])
                if len(spec["observations"]) < 2:
                    spec["observations"].append(dict(spec["observations"][0], name="b",
                                                     start=spec["observations"][0]["start"] + 2))
                if spec["scheduling"]["kind"] == "batch":
                    spec["scheduling"] = {"kind": "batch", "partitions": rng.choice([1, 1, 2]), "min": 1, "split": None}
                tot = sum(o["rate"] * o["duration"] for o in spec["observations"])
                spec["hot"]["capacity"] = int(tot / 0.6) + 5
                spec["cold"]["capacity"] = spec["hot"]["capacity"] + 5
                spec["hot"]["rate"] = max([spec["hot"]["rate"]] + [o["rate"] for o in spec["observations"]])
                spec["total_arrays"] = max(spec["total_arrays"], max(o["demand"] for o in spec["observations"]))
                if shape == "delay" or (shape == "any" and rng.random() < 0.5):
                    # an active delay model with runtimes long enough for the delay to show
                    spec["delay"] = {"prob": rng.choice([0.3, 0.5, 0.7]), "degree": rng.choice(["MID", "HIGH"]),
                                     "seed": rng.choice([0, 0, rng.randint(0, 60), rng.randint(0, 60), rng.randint(0, 60)])}
                    mx = max(m["flops"] for m in spec["machines"])
                    for o in spec["observations"]:
                        for nd in o["workflow"]["nodes"]:
                            nd["comp"] = mx * rng.randint(8, 20)
                elif spec.get("delay") and "prob" in spec["delay"]:
                    spec["delay"] = None
            if shape == "batch" and i % 10 < 5:
                # identical machines, a fork whose branches fetch DIFFERENT amounts of data from the common
                # predecessor: which ready task gets the predecessor's own machine decides the start times
                nm = rng.randint(3, 4)
                spec["machines"] = [{"id": "m%d" % k, "flops": 10, "bw": 2} for k in range(nm)]
                spec["max_ingest"] = min(spec["max_ingest"], nm)
                spec["scheduling"] = {"kind": "batch", "partitions": 1, "min": 1, "split": None}
                spec["delay"] = None
                for o in spec["observations"]:
                    k = rng.randint(2, nm)
                    same = rng.random() < 0.5     # branches of equal length end in the same step: a tie for the join
                    c0 = 10 * rng.randint(1, 4)
                    nodes = [{"id": 0, "comp": 20}] + [{"id": j, "comp": c0 if same else 10 * rng.randint(1, 4)} for j in range(1, k + 1)]
                    nodes.append({"id": k + 1, "comp": 10})
                    vols = rng.sample([2, 4, 6, 8, 12, 16], k)
                    if same:
                        vols = [rng.choice([2, 4])] * k      # ... and the branches themselves start together
                    back = rng.sample([0, 2, 4, 8, 12, 16], k)      # the join fetches a different volume from each branch
                    edges = [[0, j, vols[j - 1]] for j in range(1, k + 1)] + [[j, k + 1, back[j - 1]] for j in range(1, k + 1)]
                    o["workflow"] = {"nodes": nodes, "edges": edges}
                    o["ingest_demand"] = min(o["ingest_demand"], spec["max_ingest"])
            if shape == "batchseq":
                # whole-cluster reservations one after the other on machines of very different speeds: the order
                # in which a released reservation's machines come back decides who runs what next
                par = 1 if (i // 6) % 3 == 0 else rng.choice([2, 3])
                nm = rng.randint(4, 6) if par == 1 else rng.randint(6, 8)
                spec["machines"] = [{"id": "m%d" % k, "flops": f, "bw": rng.choice([1, 2, 4])}
                                    for k, f in enumerate(rng.sample([1, 2, 4, 5, 8, 10, 20, 40], nm))]
                spec["max_ingest"] = min(spec["max_ingest"], 2)
                # par = 2: each reservation takes half of the cluster and the next one is cut from what is left
                # over WHILE the first is still held; par = 1: the whole cluster, one reservation after the other
                spec["scheduling"] = {"kind": "batch", "partitions": par, "min": 1, "split": None}
                spec["delay"] = None
                base = dict(spec["observations"][0])
                obs, t = [], base["start"]
                for j in range(rng.randint(2, 3)):
                    o = dict(base, name="abc"[j], start=t, duration=rng.randint(1, 3))
                    o["ingest_demand"] = min(o["ingest_demand"], spec["max_ingest"])
                    o["workflow"] = simgen.gen_workflow(rng, rng.randint(4, 7), [40],
                                                        shape=rng.choice(["fan", "diamond", "random"]))
                    for nd in o["workflow"]["nodes"]:
                        nd["comp"] = 40 * rng.randint(1, 5)
                    obs.append(o)
                    t += (o["duration"] + rng.randint(0, 3)) if par == 1 else rng.randint(0, 1)
                spec["observations"] = obs
                if par >= 2:
                    spec["max_ingest"] = 1
                    for o in obs:
                        o["ingest_demand"] = 1
                        o["demand"] = 1
                    spec["total_arrays"] = max(spec["total_arrays"], len(obs))
                tot = sum(o["rate"] * o["duration"] for o in obs)
                spec["hot"]["capacity"] = int(tot / 0.6) + 5
                spec["cold"]["capacity"] = spec["hot"]["capacity"] + 5
            if shape == "tie":
                # planned-start ties: several roots with zero planned duration on few machines, so that a
                # plan-driven algorithm meets ready tasks of equal est planned on the same machine
                spec["planning"], spec["scheduling"] = "static", {"kind": "dynamic"}
                spec["static_seed"] = rng.randint(0, 10 ** 6)
                spec["machines"] = spec["machines"][:rng.randint(1, 2)]
                spec["max_ingest"] = min(spec["max_ingest"], len(spec["machines"]))
                fl = min(m["flops"] for m in spec["machines"])
                for o in spec["observations"]:
                    k = rng.randint(3, 5)
                    nodes = [{"id": j, "comp": rng.choice([0, 1, max(1, fl - 1), fl * 3, fl * 5])} for j in range(k)]
                    edges = []
                    if rng.random() < 0.5:
                        nodes.append({"id": k, "comp": fl * 2})
                        edges = [[j, k, rng.choice([0, 2, 4])] for j in range(k)]
                    o["workflow"] = {"nodes": nodes, "edges": edges}
                    o["ingest_demand"] = min(o["ingest_demand"], spec["max_ingest"])
                spec["delay"] = None
            if shape == "greedy":
                # GreedySchedulingFromPlan whose plan serialises every task on ONE machine: the ready tasks that do
                # not get it fall back to "any free machine", and which one must not depend on the hash seed
                nm = rng.randint(4, 6)
                spec["machines"] = [{"id": "m%d" % k, "flops": f, "bw": rng.choice([1, 2, 4])}
                                    for k, f in enumerate(rng.sample([2, 4, 5, 8, 10, 20, 40], nm))]
                spec["max_ingest"] = min(spec["max_ingest"], 2)
                spec["planning"], spec["scheduling"] = "static", {"kind": "greedy"}
                spec["static_seed"] = rng.randint(0, 10 ** 6)
                spec["delay"] = None
                sp = {}
                mx = max(m["flops"] for m in spec["machines"])
                for o in spec["observations"]:
                    k = rng.randint(3, 5)
                    nodes = [{"id": j, "comp": mx * rng.randint(1, 6)} for j in range(k)]
                    edges = []
                    if rng.random() < 0.5:
                        nodes.append({"id": k, "comp": mx * 2})
                        edges = [[j, k, rng.choice([0, 2, 4])] for j in range(k)]
                    o["workflow"] = {"nodes": nodes, "edges": edges}
                    o["ingest_demand"] = min(o["ingest_demand"], spec["max_ingest"])
                    sp[o["name"]] = {str(nd["id"]): "m0" for nd in nodes}
                spec["static_plan"] = sp
            if shape == "any" and i >= 6:
                # buffer tiering (hot tier over its threshold): what one simulation leaves behind in the interpreter
                # must not reach the next one (compared below with a fresh interpreter that runs this case only)
                d1, d2 = rng.randint(1, 3), rng.randint(1, 3)
                ra, rb = rng.randint(4, 8), rng.randint(2, 5)
                va, vb = ra * d1, rb * d2
                fl = 10
                spec = {"machines": [{"id": "m%d" % k, "flops": fl, "bw": 2} for k in range(3)], "system_bandwidth": 1,
                        "total_arrays": 4, "max_ingest": 2,
                        "observations": [
                            {"name": "a", "start": 0, "duration": d1, "demand": 1, "rate": ra, "ingest_demand": 1,
                             "workflow": {"nodes": [{"id": 0, "comp": fl * rng.randint(12, 20)}], "edges": []}},
                            {"name": "b", "start": d1 + rng.randint(0, 1), "duration": d2, "demand": 1, "rate": rb, "ingest_demand": 1,
                             "workflow": {"nodes": [{"id": 0, "comp": fl * rng.randint(1, 3)}], "edges": []}}],
                        # a alone stays under 60 %, a and b together go over it: b is tiered out when it is stored
                        "hot": {"capacity": max(int(va / 0.58) + 1, int((va + vb) / 0.9)), "rate": 10},
                        "cold": {"capacity": 4 * (va + vb), "rate": max(vb, 1)},
                        "timestep": "seconds", "planning": "batch", "scheduling": {"kind": "queue"}, "delay": None}
            outs = []
            if i % 3 == 0:
                fresh = subprocess.run([sys.executable, "-c", WORKER], input=json.dumps(spec) + "\n", text=True,
                                       capture_output=True, env=dict(os.environ, PYTHONHASHSEED="0"))
                outs.append(fresh.stdout.strip().split("\n")[-1] if fresh.stdout.strip() else "")
            for w in workers:
                w.stdin.write(json.dumps(spec) + "\n")
                w.stdin.flush()
            for w in workers:
                outs.append(w.stdout.readline().strip())
            # and twice in this process -- the second and third run share ONE delay-model object
            a = runsim.run_spec(spec, max_steps=400)
            shared = {"share_sched": True}
            b = runsim.run_spec(spec, max_steps=400, shared=shared)
            c = runsim.run_spec(spec, max_steps=400, shared=shared)
            same_inproc = (a["out"] == b["out"] and a["end"] == b["end"] and b["out"] == c["out"] and b["end"] == c["end"])
            res["evaluations"] += 1
            ntasks = sum(len(o["workflow"]["nodes"]) for o in spec["observations"])
            if ntasks >= 3 and len(spec["machines"]) >= 2:
                res["nontrivial"] += 1
            bump(res["dist"], spec["scheduling"]["kind"])
            if len(set(outs)) != 1 or not same_inproc or "" in outs:
                res["violations"].append({"prop": "C10", "kind": "runs-differ", "sig": "runs-differ",
                                          "detail": "distinct outputs over hash seeds %s: %d; same process twice equal: %s" % (
                                              list(hashseeds), len(set(outs)), same_inproc),
                                          "input": {"spec": spec, "hashseeds": list(hashseeds)}})
            if len(res["samples"]) < 2:
                res["samples"].append({"pairing": spec["scheduling"]["kind"], "tasks": ntasks, "end": a["end"]})
    finally:
        for w in workers:
            try:
                w.stdin.close()
                w.wait(timeout=5)
            except Exception:
                w.kill()
    return res
