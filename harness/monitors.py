"""Property monitors: a direct, model-independent evaluation of each property's
English statement on an execution of the REAL code (block by block, through the
tracer).  They are the oracle of the failing-input search and a cross-check of
the Lean model; they never stand in for a theorem.

Every violation is a dict {prop, kind, detail, time}.  `kind` is a short stable
string used for known-finding signatures."""
from fractions import Fraction
import math

from runsim import fr, all_tasks


def F(x):
    return Fraction(x) if x is not None else None


def task_obs(tid):
    """observation name of a task id '<obs>_ingest_t<i>' / '<obs>_<clock>_<node>' (names may contain '_')"""
    tid = str(tid)
    if "_ingest_t" in tid:
        return tid.rsplit("_ingest_t", 1)[0]
    return tid.rsplit("_", 2)[0]


def ceil_div(a, b):
    return -((-a) // b)


class Listener:
    def attach(self, handle, tracer):
        self.h = handle
        self.sim = handle.sim
        self.tr = tracer

    def on_spawn(self, pid, info):
        pass

    def on_begin(self, pid, info):
        pass

    def on_end(self, pid, info, outcome):
        pass

    def finish(self, rec):
        pass


def cluster_view(sim):
    cl = sim.cluster._clusters["default"]
    r = cl["resources"]
    return {
        "available": [m.id for m in r["available"]],
        "ingest": [m.id for m in r["ingest"]],
        "occupied": [m.id for m in r["occupied"]],
        "idle": [(k if isinstance(k, str) else getattr(k, "name", str(k)),
                  [m.id for m in v]) for k, v in r["idle"].items()],
        "running": [t.id for t in cl["tasks"]["running"]],
        "finished": [(t.id, bool(v)) for t, v in cl["tasks"]["finished"].items()],
        "usage": dict(cl["usage_data"]),
        "nprov": sim.cluster.num_provisioned_obs,
    }


class Monitors(Listener):
    def __init__(self, props=None, feasible=None, bound=None, simpy_order=True):
        self.props = set(props) if props else None
        self.v = []                       # violations
        self.active = {}                  # machine id -> set(task ids) with a live do_work
        self.dowork_count = {}            # task id -> activations
        self.alloc = {}                   # task id -> (time, machine id, obs, ingest)
        self.calc = {}                    # task id -> (duration, total) from _calc_task_delay
        self.status_hist = {}             # obs name -> [statuses]
        self.admit = {}                   # obs name -> snapshot at admission
        self.promised = {}                # obs name -> ingest machines promised at admission, not yet provisioned
        self.emits = []                   # (time, actor, obs, event, resource) as emitted
        self.reservation_sizes = {}       # obs -> size at creation
        self.ingested_so_far = {}         # obs -> total_data_size after the previous block
        self.ingest_hold = {}             # obs -> when its ingest machines were taken / given back
        self.sched_delayed_seen = False
        self.plan_checked = set()
        self._instant = None
        self._truth_instant = None
        self.simpy_order = simpy_order    # False: blocks of an instant run in an arbitrary order (stand-in env)
        self.rowcheck = 0
        self.blocks = 0
        self.tier_moves = 0
        self.live_h2c = set()             # pids of hot->cold moves in flight
        self.h2c_inflight = {}            # pid -> [observation being moved hot->cold, amount that has arrived]
        self.orphan_reported = set()
        self.c2h_inflight = {}            # pid -> [observation being moved cold->hot, amount that has arrived]
        self.live_c2h = set()
        self.moves_overlapped = None      # see note_moves
        self.max_live_h2c = 0
        self.max_hot_used = Fraction(0)
        self.kinds = {}
        self.pre = None
        self.feat = {"contention": 0, "reservation": 0, "fractional": 0,
                     "refused_alloc": 0, "skipped_proposal": 0, "overlap_ingest": 0}
        self._patched = []

    def want(self, p):
        return self.props is None or p in self.props

    def viol(self, prop, kind, detail, sig=None):
        if self.want(prop):
            self.v.append({"prop": prop, "kind": kind, "detail": detail, "sig": sig or kind,
                           "time": fr(self.sim.env.now)})

    # ------------------------------------------------------------------ hooks
    def attach(self, handle, tracer):
        super().attach(handle, tracer)
        sim = self.sim
        mon = self
        tel = sim.instrument
        orig_begin = tel.begin_observation

        def begin(observation):
            mon.on_admission(observation)
            return orig_begin(observation)
        tel.begin_observation = begin
        for actor in (sim.instrument, sim.scheduler, sim.buffer):
            self._wrap_add_event(actor)
        for o in sim.instrument.observations:
            self.status_hist[o.name] = [str(o.status.value)]
        self.total_machines = len(sim.cluster.machines)
        self.machine_ids = [m.id for m in sim.cluster.machines]

    def on_calc(self, task, duration, result):
        self.calc[task.id] = (duration, result)

    def _wrap_add_event(self, actor):
        mon = self
        orig = actor._add_event

        def add(observation, resource, event):
            mon.emits.append((fr(mon.sim.env.now), observation.name, str(event), str(resource)))
            return orig(observation, resource, event)
        actor._add_event = add

    def finish(self, rec):
        for (cls, name, orig) in self._patched:
            setattr(cls, name, orig)
        self._patched = []
        self.final_checks(rec)
        try:
            sim = self.sim
            hot, cold = sim.buffer.hot[0], sim.buffer.cold[0]
            rec["final_state"] = {
                "cold_stored": [o.name for o in cold.observations["stored"]],
                "hot_stored": [o.name for o in hot.observations["stored"]],
                "hot_over_threshold": bool(sim.buffer.check_buffer_over_data_threshold(0)),
                "queue": [o.name for o in sim.scheduler.observation_queue],
                "obs": [(o.name, str(o.status.value)) for o in sim.instrument.observations],
                "running": len(sim.cluster._clusters["default"]["tasks"]["running"]),
                "provision_ingest": sim.scheduler.provision_ingest,
            }
        except Exception as e:   # noqa
            rec["final_state"] = {"error": repr(e)}
        rec["violations"] = self.v
        rec["features"] = self.feat
        rec["blocks"] = self.blocks
        rec["kinds"] = self.kinds
        rec["rowchecks"] = self.rowcheck

    # ---------------------------------------------------------------- spawn
    def on_spawn(self, pid, info):
        k = info["kind"]
        self.kinds[k] = self.kinds.get(k, 0) + 1
        if k == "dowork":
            task = info["obj"]
            machine = info["args"][1]
            self.dowork_count[task.id] = self.dowork_count.get(task.id, 0) + 1
            s = self.active.setdefault(machine.id, set())
            s.add(task.id)
            if len(s) > 1:
                self.viol("C01", "two-bodies-on-machine",
                          "machine %s runs %s" % (machine.id, sorted(s)))
            if self.dowork_count[task.id] > 1:
                self.viol("C04", "task-started-twice", task.id)
        elif k in ("hot2cold", "cold2hot"):
            self.tier_moves += 1
            if k == "hot2cold":
                self.live_h2c.add(pid)
                self.max_live_h2c = max(self.max_live_h2c, len(self.live_h2c))
            else:
                self.live_c2h.add(pid)
            self.note_moves()

    def note_moves(self):
        """K7 predicate: since the tiers were last quiet (no move alive) more than one hot->cold move, or moves in both
        directions, have been alive at once - the cold tier's single transfer slot then no longer shows what is in
        transit (Lean: TransitOneCold is the hypothesis of C08_admission_cold_room_traj)."""
        if not self.live_h2c and not self.live_c2h:
            self.moves_overlapped = None
        elif len(self.live_h2c) >= 2:
            self.moves_overlapped = "concurrent-h2c"
        elif self.live_h2c and self.live_c2h and self.moves_overlapped is None:
            self.moves_overlapped = "moves-in-both-directions"

    # ---------------------------------------------------------------- blocks
    def on_begin(self, pid, info):
        self.blocks += 1
        if self.want("C12"):
            self.note_instant_start()
        k = info["kind"]
        sim = self.sim
        if k == "alloctask" and info["blocks"] == 0:
            cv = cluster_view(sim)
            a = info["args"]
            kw = info["kwargs"]
            task, machine = a[0], a[1]
            obs = a[3] if len(a) > 3 else kw.get("observation")
            ing = a[4] if len(a) > 4 else kw.get("ingest", False)
            info["_pre"] = cv
            info["_obs"] = obs
            info["_ing"] = ing
            idle_obs = dict(cv["idle"]).get(obs, [])
            info["_target_pool"] = ("available" if machine.id in cv["available"] else
                                    "ingest" if machine.id in cv["ingest"] else
                                    "occupied" if machine.id in cv["occupied"] else
                                    "idle-own" if machine.id in idle_obs else
                                    "idle-foreign" if any(machine.id in l for _, l in cv["idle"]) else
                                    "nowhere")
        elif k == "monitor":
            self.check_row_pre()
        elif k == "telescope" and self.want("C08"):
            # C08: an observation that falls due while the system is completely idle starts in this very pass
            tel = sim.instrument
            cv = cluster_view(sim)
            hot, cold = sim.buffer.hot[0], sim.buffer.cold[0]
            info["_idle_due"] = None
            idle = (hot.current_capacity == hot.total_capacity and cold.current_capacity == cold.total_capacity
                    and not cv["running"] and not cv["occupied"] and not cv["ingest"] and not cv["idle"]
                    and not sim.scheduler.observation_queue and tel.telescope_use == 0
                    and sim.scheduler.provision_ingest == 0 and not self.promised
                    and all(str(o.status.value) in ("WAITING", "FINISHED") for o in tel.observations))
            if idle:
                due = [o for o in tel.observations if str(o.status.value) == "WAITING" and o.est <= sim.env.now]
                if due:
                    o = due[0]
                    d = tel.pipelines[o.name]["ingest_demand"]
                    vol = o.ingest_data_rate * o.duration
                    if (o.demand <= tel.total_arrays and d <= min(tel.max_ingest, len(cv["available"]))
                            and vol <= hot.current_capacity and vol <= cold.current_capacity
                            and o.ingest_data_rate <= hot.max_ingest_data_rate and o.duration >= 1):
                        info["_idle_due"] = o
        elif k == "alloctasks":
            info["_cv"] = cluster_view(sim)
            ob = info["args"][0] if info["args"] else None
            plan = getattr(ob, "plan", None)
            # C07: the workflow is complete when this block begins (every task of the plan FINISHED)
            # C15: a task of the plan that is FINISHED and flagged delayed when this block begins
            info["_flagged_done"] = [t.id for t in (plan.tasks if plan is not None else [])
                                     if str(getattr(t.task_status, "name", t.task_status)) == "FINISHED" and t.delay_flag]
            info["_wf_complete"] = bool(plan is not None and plan.tasks and all(
                str(getattr(t.task_status, "name", t.task_status)) == "FINISHED" for t in plan.tasks))
        elif k == "provingest" and info["blocks"] == 0:
            info["_cv"] = cluster_view(sim)
        elif k in ("hot2cold", "cold2hot"):
            b = sim.buffer
            info["_sum"] = b.hot[0].current_capacity + b.cold[0].current_capacity
            info["_cold_pre"] = b.cold[0].current_capacity
            info["_hot_pre"] = b.hot[0].current_capacity

    def on_end(self, pid, info, outcome):
        k = info["kind"]
        sim = self.sim
        now = sim.env.now
        if k == "dowork" and outcome[0] in ("end", "raise"):
            task = info["obj"]
            machine = info["args"][1]
            self.active.get(machine.id, set()).discard(task.id)
        if k == "alloctask" and info["blocks"] == 1:
            self.after_alloc_begin(info, outcome)
        if k == "monitor":
            self.check_row_post()
        if k == "telescope" and info.get("_idle_due") is not None and outcome[0] != "raise":
            o = info["_idle_due"]
            if str(o.status.value) == "WAITING" and o.name not in self.admit:
                self.viol("C08", "idle-system-late-start",
                          "%s due %s: the system was completely idle at %s and everything it needs was free, it did not begin" % (
                              o.name, fr(o.est), fr(now)))
        if k == "alloctasks" and info.get("_flagged_done") and outcome[0] != "raise" and self.want("C15"):
            # ... is pruned from the plan by this block, and the scheduler reports DELAYED from then on
            st_ = str(getattr(sim.scheduler.schedule_status, "value", sim.scheduler.schedule_status))
            if "DELAYED" not in st_.upper():
                self.viol("C15", "delay-not-reported-when-task-completed",
                          "%s finished and flagged delayed when the allocate_tasks block began at %s, schedule status %s after it" % (
                              info["_flagged_done"][:3], fr(now), st_))
        if k == "alloctasks" and info.get("_wf_complete") and outcome[0] != "raise" and self.want("C09"):
            # C09: ... and the reservation of that workflow is released by this very block
            ob = info["args"][0]
            if ob.name in dict(cluster_view(sim)["idle"]):
                self.viol("C09", "reservation-not-released-when-workflow-completed",
                          "%s: every task FINISHED when its allocate_tasks block began at %s, reservation %s still held after it" % (
                              ob.name, fr(now), dict(cluster_view(sim)["idle"])[ob.name]))
        if k == "alloctasks" and info.get("_wf_complete") and outcome[0] != "raise" and self.want("C07"):
            # ... so this very block hands the observation back: its data is freed when its workflow completes,
            # not some scheduling rounds later
            ob = info["args"][0]
            hot = sim.buffer.hot[0]
            if ob not in hot.observations["finished"]:
                self.viol("C07", "data-not-freed-when-workflow-completed",
                          "%s: every task FINISHED when its allocate_tasks block began at %s, still resident after it" % (
                              ob.name, fr(now)))
        if k == "provingest" and info["blocks"] == 1:
            ob = info["args"][1] if len(info["args"]) > 1 else None
            self.promised.pop(getattr(ob, "name", ob), None)
        if k == "provingest" and info["blocks"] == 1 and outcome[0] == "yield":
            self.after_prov_ingest(info)
        if k == "hot2cold":
            # what is on its way to the cold tier: the observation the first block picked, less what has arrived
            hot0, cold0 = sim.buffer.hot[0], sim.buffer.cold[0]
            if info["blocks"] == 1 and outcome[0] == "yield" and hot0.observations["transfer"] is not None:
                self.h2c_inflight[pid] = [hot0.observations["transfer"], 0]
            if pid in self.h2c_inflight:
                self.h2c_inflight[pid][1] += info.get("_cold_pre", cold0.current_capacity) - cold0.current_capacity
        if k == "hot2cold" and outcome[0] in ("end", "raise"):
            self.live_h2c.discard(pid)
            self.h2c_inflight.pop(pid, None)
            self.note_moves()
        if k == "cold2hot":
            # what is on its way back to the hot tier
            hot0, cold0 = sim.buffer.hot[0], sim.buffer.cold[0]
            if info["blocks"] == 1 and outcome[0] == "yield" and cold0.observations["transfer"] is not None \
                    and pid not in self.c2h_inflight:
                self.c2h_inflight[pid] = [cold0.observations["transfer"], 0]
            if pid in self.c2h_inflight:
                self.c2h_inflight[pid][1] += info.get("_hot_pre", hot0.current_capacity) - hot0.current_capacity
            if outcome[0] in ("end", "raise"):
                self.live_c2h.discard(pid)
                self.c2h_inflight.pop(pid, None)
                self.note_moves()
        if k in ("hot2cold", "cold2hot") and outcome[0] != "raise":
            b = sim.buffer
            s2 = b.hot[0].current_capacity + b.cold[0].current_capacity
            if s2 != info["_sum"]:
                self.viol("C18", "tier-move-not-conserving",
                          "hot+cold free space %s -> %s in one %s step" % (fr(info["_sum"]), fr(s2), k))
        self.after_every_block(k, info, outcome)

    # ----------------------------------------------------------- C08 admission
    def on_admission(self, o):
        sim = self.sim
        tel = sim.instrument
        cv = cluster_view(sim)
        hot, cold = sim.buffer.hot[0], sim.buffer.cold[0]
        vol = o.ingest_data_rate * o.duration
        d = tel.pipelines[o.name]["ingest_demand"]
        now = sim.env.now
        snap = {"now": fr(now), "use": tel.telescope_use, "avail": len(cv["available"]),
                "ingest": len(cv["ingest"]), "hot": fr(hot.current_capacity),
                "cold": fr(cold.current_capacity), "vol": fr(vol), "demand": d}
        self.admit.setdefault(o.name, []).append(snap)
        if len(self.admit[o.name]) > 1:
            self.viol("C08", "observation-admitted-twice", o.name)
            self.viol("C04", "observation-admitted-twice", o.name)
        if now < o.est:
            self.viol("C08", "started-before-planned-start", "%s at %s < %s" % (o.name, fr(now), fr(o.est)))
        if o.demand > tel.total_arrays - tel.telescope_use:
            self.viol("C08", "admitted-without-arrays", "%s %s" % (o.name, snap))
        if d > len(cv["available"]):
            self.viol("C08", "admitted-without-machines", "%s %s" % (o.name, snap))
        if len(cv["ingest"]) + d > tel.max_ingest:
            self.viol("C08", "admitted-over-ingest-limit", "%s %s" % (o.name, snap))
        # machines promised to observations that have begun but whose provisioning has not run yet (it runs later
        # in the same instant) are not free for this one, and count towards the ingest-machine limit
        promised = sum(self.promised.values())
        snap["promised"] = promised
        if promised and d <= len(cv["available"]) < d + promised:
            self.viol("C08", "admitted-on-promised-machines", "%s %s" % (o.name, snap))
        if promised and len(cv["ingest"]) + d <= tel.max_ingest < len(cv["ingest"]) + promised + d:
            self.viol("C08", "admitted-over-ingest-limit", "%s %s (with the machines promised)" % (o.name, snap))
        self.promised[o.name] = d
        if vol > hot.current_capacity:
            self.viol("C08", "admitted-without-hot-space", "%s %s" % (o.name, snap))
        tr = cold.observations["transfer"]
        need = vol + (tr.total_data_size if tr else 0)
        if need > cold.current_capacity:
            self.viol("C08", "admitted-without-cold-space", "%s %s" % (o.name, snap))
        # ... counted independently of the cold tier's own transfer marker: what is still on its way to the cold
        # tier will need room there too
        coming = sum(max(0, ob.total_data_size - moved) for ob, moved in self.h2c_inflight.values())
        if coming and vol <= cold.current_capacity < vol + coming:
            snap["still_to_arrive_in_cold"] = fr(coming)
            self.viol("C08", "admitted-without-cold-space", "%s %s (room taken by data still in transit to the cold tier)" % (o.name, snap),
                      sig="admitted-without-cold-space:in-transit" + (":" + self.moves_overlapped if self.moves_overlapped else ""))
        # K8: the hot tier's test is `free - volume >= 0`; what is on its way back from the cold tier is not counted
        back = sum(max(0, ob.total_data_size - moved) for ob, moved in self.c2h_inflight.values())
        if back and vol <= hot.current_capacity < vol + back:
            snap["still_to_arrive_in_hot"] = fr(back)
            self.viol("C08", "admitted-without-hot-space", "%s %s (room taken by data still in transit back to the hot tier)" % (o.name, snap),
                      sig="admitted-without-hot-space:in-transit-from-cold")
        if str(o.status.value) != "WAITING":
            self.viol("C08", "admitted-not-waiting", "%s %s" % (o.name, o.status))
        # running ingests at this moment (feature)
        if cv["ingest"]:
            self.feat["overlap_ingest"] += 1
        # on time when idle: recorded for the final check
        snap["system_idle"] = bool(sim.buffer.is_empty() and not cv["running"] and not cv["occupied"]
                                   and not cv["ingest"] and not sim.scheduler.observation_queue
                                   and tel.telescope_use == 0)

    # ------------------------------------------------------- allocation begin
    def after_alloc_begin(self, info, outcome):
        sim = self.sim
        a = info["args"]
        task, machine = a[0], a[1]
        obs, ing = info["_obs"], info["_ing"]
        pool = info["_target_pool"]
        pre = info["_pre"]
        post = cluster_view(sim)
        if outcome[0] == "raise":
            self.feat["refused_alloc"] += 1
            for key in ("available", "ingest", "occupied", "idle", "running"):
                if pre[key] != post[key]:
                    self.viol("C02", "refused-call-changed-pools",
                              "%s: %s -> %s" % (key, pre[key], post[key]))
            return
        self.alloc[task.id] = (fr(sim.env.now), machine.id, obs, bool(ing))
        if ing:
            if pool != "ingest":
                self.viol("C01", "ingest-task-on-non-ingest-machine", "%s on %s (%s)" % (task.id, machine.id, pool))
        else:
            if pool not in ("available", "idle-own"):
                self.viol("C01", "task-accepted-on-ineligible-machine",
                          "%s on %s which was %s" % (task.id, machine.id, pool))
                self.viol("C02", "task-accepted-on-ineligible-machine",
                          "%s on %s which was %s" % (task.id, machine.id, pool))
                if pool in ("idle-foreign", "ingest"):
                    self.viol("C09", "reserved-machine-given-away",
                              "%s on %s which was %s" % (task.id, machine.id, pool))
            if pool == "idle-own":
                self.feat["reservation"] += 1
            # C09: under batch scheduling tasks run only on machines reserved for their observation
            if self.h.spec["scheduling"]["kind"] == "batch" and pool != "idle-own":
                self.viol("C09", "batch-task-outside-reservation",
                          "%s on %s (%s)" % (task.id, machine.id, pool))
            # C17
            if self.h.spec["scheduling"]["kind"] == "dynamic":
                planned = self.h.planning.recorded.get(task.id)
                if planned != machine.id:
                    self.viol("C17", "task-migrated", "%s planned %s ran on %s" % (task.id, planned, machine.id))
        # the machine must not already host a live body
        others = [t for t in self.active.get(machine.id, set()) if t != task.id]
        if others:
            self.viol("C01", "two-bodies-on-machine", "machine %s: %s + %s" % (machine.id, others, task.id))

    def after_prov_ingest(self, info):
        pre = info["_cv"]
        post = cluster_view(self.sim)
        taken = [m for m in pre["available"] if m not in post["available"]]
        reserved = set()
        for _, l in pre["idle"]:
            reserved.update(l)
        if set(taken) & reserved or set(taken) & set(pre["occupied"]):
            self.viol("C09", "reserved-machine-given-away", "ingest took %s" % taken)
        d = info["args"][0]
        if len(taken) != d:
            self.viol("C08", "ingest-machine-count", "took %s, demand %s" % (taken, d))

    # --------------------------------------------------------- every block
    def after_every_block(self, k, info, outcome):
        sim = self.sim
        cv = cluster_view(sim)
        tel = sim.instrument
        # C02 partition
        if self.want("C02") or self.want("C01"):
            pools = cv["available"] + cv["ingest"] + cv["occupied"] + [m for _, l in cv["idle"] for m in l]
            if sorted(pools) != sorted(self.machine_ids):
                self.viol("C02", "pools-not-a-partition",
                          "avail=%s ingest=%s occ=%s idle=%s" % (cv["available"], cv["ingest"], cv["occupied"], cv["idle"]))
            u = cv["usage"]
            if u["running_tasks"] != len(cv["running"]):
                self.viol("C02", "running-count-wrong", "%s vs %s" % (u["running_tasks"], cv["running"]))
            if u["finished_tasks"] != sum(1 for _, f in cv["finished"] if f):
                self.viol("C02", "finished-count-wrong", "%s vs %s" % (u["finished_tasks"], cv["finished"]))
            if u["available"] != self.total_machines - len(cv["running"]):
                self.viol("C02", "available-count-wrong", "%s vs total-%d" % (u["available"], len(cv["running"])))
            ning = sum(1 for t in cv["running"] if "_ingest_" in t)
            if u["ingest"] != ning:
                self.viol("C02", "ingest-count-wrong", "%s vs %d" % (u["ingest"], ning))
            if cv["nprov"] != len(cv["idle"]) and self.h.spec["scheduling"]["kind"] == "batch":
                self.viol("C02", "reservation-count-wrong", "%s vs %s" % (cv["nprov"], cv["idle"]))
            # machines that may receive a task host no body
            for m in cv["available"] + [x for _, l in cv["idle"] for x in l]:
                if self.active.get(m):
                    self.viol("C01", "free-machine-hosts-body", "%s: %s" % (m, self.active[m]))
        # C08: ingest holds the pipeline's machine demand for the observation's duration (pool membership, by
        # event time: from the provisioning block to the block that gives the machines back)
        if self.want("C08") and self.simpy_order:
            now_t = F(sim.env.now)
            held = {}
            for t in cv["running"]:
                if "_ingest_t" in t:
                    nm = task_obs(t)
                    held[nm] = held.get(nm, 0) + 1
            for o in tel.observations:
                h = held.get(o.name, 0)
                st = self.ingest_hold.setdefault(o.name, {"from": None, "to": None, "max": 0})
                if h > 0 and st["from"] is None:
                    st["from"] = now_t
                st["max"] = max(st["max"], h)
                if h == 0 and st["from"] is not None and st["to"] is None:
                    st["to"] = now_t
                    d = F(o.duration)
                    if st["to"] - st["from"] != d:
                        early = (st["to"] - st["from"] == d - 1) and d >= 3
                        self.viol("C08", "ingest-machines-not-held-for-duration",
                                  "%s: %d machines held from t=%s to t=%s, duration %s" % (
                                      o.name, st["max"], fr(st["from"]), fr(st["to"]), fr(o.duration)),
                                  sig="ingest-hold-time" + (":one-step-short:duration>=3" if early else ""))
        # C08: the telescope's own array counter is the demand of the observations that have begun and not ended
        if self.want("C08") and k == "telescope" and outcome[0] != "raise":
            true_use = sum(o.demand for o in tel.observations
                           if o.name in self.admit and str(o.status.value) != "FINISHED")
            if tel.telescope_use != true_use:
                self.viol("C08", "array-counter-not-arrays-in-use", "telescope_use %s, observations on the telescope need %s" % (
                    tel.telescope_use, true_use))
            if true_use > tel.total_arrays:
                self.viol("C08", "arrays-in-use-exceed-total", "%s of %s" % (true_use, tel.total_arrays))
        # C08 limits
        if tel.telescope_use > tel.total_arrays or tel.telescope_use < 0:
            self.viol("C08", "array-use-out-of-range", "%s of %s" % (tel.telescope_use, tel.total_arrays))
        if len(cv["ingest"]) > tel.max_ingest:
            self.viol("C08", "ingest-pool-over-limit", "%s > %s" % (cv["ingest"], tel.max_ingest))
        for o in tel.observations:
            h = self.status_hist[o.name]
            s = str(o.status.value)
            if h[-1] != s:
                h.append(s)
        # C07 bounds + accounting
        hot, cold = sim.buffer.hot[0], sim.buffer.cold[0]
        if hot.total_capacity:
            fracn = Fraction(hot.total_capacity - hot.current_capacity) / Fraction(hot.total_capacity)
            if fracn > self.max_hot_used:
                self.max_hot_used = fracn
        if hot.current_capacity < 0 or hot.current_capacity > hot.total_capacity:
            # K3 predicate: the volumes of the observations admitted and not yet removed exceed the capacity
            committed = sum(o.ingest_data_rate * o.duration for o in tel.observations
                            if o.name in self.admit and o not in hot.observations["finished"])
            over = committed > hot.total_capacity and hot.current_capacity < 0
            # ... although every admission did see room for the whole volume at its own moment
            saw_room = all(a[0]["vol"] <= a[0]["hot"] for a in self.admit.values() if a)
            self.viol("C07", "hot-free-space-out-of-range", "%s of %s (committed volumes %s)" % (
                fr(hot.current_capacity), fr(hot.total_capacity), fr(committed)),
                sig="hot-free-space-out-of-range" + (":overcommit" if over else "") +
                    (":admissions-saw-room" if saw_room else ""))
        # C07: nothing is taken in faster than the hot tier's maximum ingest rate (it is refused with an error)
        for o in tel.observations:
            prev = self.ingested_so_far.get(o.name, 0)
            if o.total_data_size - prev > hot.max_ingest_data_rate:
                self.viol("C07", "ingest-above-max-rate", "%s: %s taken in one block, maximum ingest rate %s" % (
                    o.name, fr(o.total_data_size - prev), fr(hot.max_ingest_data_rate)))
            self.ingested_so_far[o.name] = o.total_data_size
        if cold.current_capacity < 0 or cold.current_capacity > cold.total_capacity:
            # K5 predicate: several hot->cold moves were in flight at once (each saw room for itself plus at most
            # the one observation in the cold tier's transfer slot)
            self.viol("C07", "cold-free-space-out-of-range", "%s of %s (up to %d hot->cold moves in flight at once)" % (
                fr(cold.current_capacity), fr(cold.total_capacity), self.max_live_h2c),
                sig="cold-free-space-out-of-range" + (":concurrent-h2c" if self.max_live_h2c >= 2 and cold.current_capacity < 0 else ""))
        # C07: data in the buffer belongs to an observation that is resident in it: once the telescope has marked an
        # observation FINISHED it is in one of the tiers' lists (stored / scheduled / in transfer / finished)
        if self.want("C07"):
            for o in tel.observations:
                if str(o.status.value) == "FINISHED" and o.total_data_size > 0:
                    places = (hot.observations["stored"], hot.observations["scheduled"], hot.observations["finished"],
                              cold.observations["stored"])
                    moving = [x[0] for x in self.h2c_inflight.values()] + [x[0] for x in self.c2h_inflight.values()]
                    if not any(o in pl for pl in places) and hot.observations["transfer"] is not o \
                            and cold.observations["transfer"] is not o and not any(o is x for x in moving) \
                            and not self.live_h2c and not self.live_c2h and o.name not in self.orphan_reported:
                        self.orphan_reported.add(o.name)
                        self.viol("C07", "data-owned-by-no-resident-observation",
                                  "%s has left the telescope with %s units taken in, and is in neither tier's lists" % (
                                      o.name, fr(o.total_data_size)))
        if self.tier_moves == 0:
            resident = 0
            for o in tel.observations:
                if o not in hot.observations["finished"]:
                    resident += o.total_data_size
            if hot.total_capacity - hot.current_capacity != resident:
                self.viol("C07", "hot-used-space-not-resident-data",
                          "used %s resident %s" % (fr(hot.total_capacity - hot.current_capacity), fr(resident)))
        else:
            resident = sum(o.total_data_size for o in tel.observations if o not in hot.observations["finished"])
            used = (hot.total_capacity - hot.current_capacity) + (cold.total_capacity - cold.current_capacity)
            if used != resident:
                self.viol("C07", "buffer-used-space-not-resident-data", "used %s resident %s" % (fr(used), fr(resident)))
        # C09 reservation bounds
        sk = self.h.spec["scheduling"]
        if sk["kind"] == "batch":
            if len(cv["idle"]) > sk.get("partitions", 1):
                self.viol("C09", "too-many-reservations", "%s > %s" % (cv["idle"], sk.get("partitions", 1)))
            for name, l in cv["idle"]:
                if name not in self.reservation_sizes:
                    self.reservation_sizes[name] = len(l)
                    n = self.total_machines
                    if sk.get("split"):
                        lo, hi = sk["split"][name]
                        lo = max(lo, sk.get("min", 1))      # the configured minimum holds beside a per-observation split
                    else:
                        lo, hi = sk.get("min", 1), n // sk.get("partitions", 1)
                    if len(l) > hi or len(l) < lo or len(l) < sk.get("min", 1):
                        self.viol("C09", "reservation-size-out-of-bounds",
                                  "%s got %d machines, allowed [%s,%s] min %s" % (name, len(l), lo, hi, sk.get("min", 1)))
                # ... and it neither grows nor shrinks until it is released: idle part + machines its tasks hold
                busy = [t for t in cv["running"] if t in self.alloc and not self.alloc[t][3] and self.alloc[t][2] == name]
                held = len(l) + len(busy)
                if held != self.reservation_sizes[name]:
                    self.viol("C09", "reservation-changed-size",
                              "%s holds %d machines (%d idle + %d busy), reserved %d" % (
                                  name, held, len(l), len(busy), self.reservation_sizes[name]))
        # C14: a plan mirrors the workflow configured for ITS observation (checked once, when the plan appears)
        if self.want("C14") and k == "monitor":
            for o in tel.observations:
                pl = getattr(o, "plan", None)
                # (checked at every step until it fails once: the graph stays the workflow while the plan is executed -
                # finished tasks are pruned from plan.tasks, never from the graph)
                if pl is None or pl.graph is None or o.name in self.plan_checked:
                    continue
                wf = [x for x in self.h.spec["observations"] if x["name"] == o.name][0]["workflow"]
                suffix = lambda t: str(t.id).rsplit("_", 1)[-1]
                got_nodes = sorted(suffix(t) for t in pl.graph.nodes)
                want_nodes = sorted(str(nd["id"]) for nd in wf["nodes"])
                got_edges = sorted((suffix(u), suffix(v)) for u, v in pl.graph.edges)
                want_edges = sorted((str(e[0]), str(e[1])) for e in wf["edges"])
                comps = {str(nd["id"]): nd["comp"] for nd in wf["nodes"]}
                bad_comp = [t.id for t in pl.graph.nodes if suffix(t) in comps and t.flops != comps[suffix(t)]]
                if got_nodes != want_nodes or got_edges != want_edges or bad_comp or \
                        any(task_obs(t.id) != o.name for t in pl.graph.nodes):
                    self.plan_checked.add(o.name)
                    self.viol("C14", "plan-not-the-observations-workflow",
                              "%s: plan nodes %s edges %s, its workflow has nodes %s edges %s; wrong demands %s" % (
                                  o.name, got_nodes, got_edges[:6], want_nodes, want_edges[:6], bad_comp[:3]))
        # C14: the plan's predecessor / successor queries keep mirroring the workflow graph while the plan
        # is being executed (finished tasks are pruned from plan.tasks, never from the graph)
        if self.want("C14") and k == "monitor":
            for plan in [o.plan for o in tel.observations
                         if getattr(o, "plan", None) is not None and o.plan.graph is not None]:
                g = plan.graph
                for t in g.nodes:
                    want_p = sorted(x.id for x in g.predecessors(t))
                    want_s = sorted(x.id for x in g.successors(t))
                    try:
                        got_p = sorted(x.id for x in plan.get_task_predecessors(t))
                        got_s = sorted(x.id for x in plan.get_task_successors(t))
                    except Exception as e:   # noqa
                        self.viol("C14", "plan-query-raised", "%s: %s" % (t.id, type(e).__name__))
                        continue
                    if got_p != want_p or got_s != want_s:
                        self.viol("C14", "plan-query-differs-from-graph",
                                  "%s: predecessors %s (graph %s), successors %s (graph %s)" % (t.id, got_p, want_p, got_s, want_s))
        # C15: the scheduler's DELAYED report is never taken back
        if self.want("C15"):
            st_ = str(getattr(sim.scheduler.schedule_status, "value", sim.scheduler.schedule_status))
            if st_ == "DELAYED":
                self.sched_delayed_seen = True
            elif self.sched_delayed_seen:
                self.viol("C15", "delayed-report-taken-back", "schedule_status is %s after it had been DELAYED" % st_)
        # C19 queries
        if self.want("C19"):
            truth_cluster = (not cv["running"]) and (not cv["occupied"]) and (not cv["ingest"])
            if bool(sim.cluster.is_idle()) != truth_cluster:
                self.viol("C19", "cluster-is_idle-wrong", "is_idle=%s running=%s occ=%s ingest=%s" % (
                    sim.cluster.is_idle(), cv["running"], cv["occupied"], cv["ingest"]))
            if truth_cluster and bool(sim.cluster.is_idle()):
                # ... and no task is inside the interval it records: a task that has stamped its finish time keeps
                # its machine, and stays "running", until that time
                fin = sim.cluster._clusters["default"]["tasks"]["finished"]
                for t_ in fin:
                    if t_.ast != -1 and t_.aft != -1 and F(t_.ast) <= F(sim.env.now) < F(t_.aft):
                        self.viol("C19", "cluster-idle-inside-a-recorded-interval",
                                  "is_idle() at %s, %s records [%s, %s)" % (fr(sim.env.now), t_.id, fr(t_.ast), fr(t_.aft)))
                        break
            truth_buf = hot.current_capacity == hot.total_capacity and cold.current_capacity == cold.total_capacity
            if bool(sim.buffer.is_empty()) != truth_buf:
                self.viol("C19", "buffer-is_empty-wrong", "")
            if bool(sim.scheduler.is_idle()) != (len(sim.scheduler.observation_queue) == 0):
                self.viol("C19", "scheduler-is_idle-wrong", "")
            if bool(sim.scheduler.is_idle()) and hot.observations["scheduled"]:
                # an observation handed to the scheduler stays queued until the block that frees its data
                self.viol("C19", "scheduler-idle-with-observations-in-processing",
                          "is_idle() while %s are scheduled in the hot tier" % [o_.name for o_ in hot.observations["scheduled"]])
            if bool(tel.is_idle()):
                # ... and no observation is inside the window it occupies on the telescope
                for o_ in tel.observations:
                    if o_.ast is not None and F(o_.ast) <= F(sim.env.now) < F(o_.ast) + F(o_.duration):
                        self.viol("C19", "telescope-idle-inside-an-observation-window",
                                  "is_idle() at %s, %s is on the telescope from %s for %s" % (
                                      fr(sim.env.now), o_.name, fr(o_.ast), fr(o_.duration)))
                        break
            truth_tel = all(str(o.status.value) == "FINISHED" for o in tel.observations) and tel.telescope_use == 0
            if bool(tel.is_idle()) != truth_tel:
                self.viol("C19", "telescope-is_idle-wrong", "is_idle=%s use=%s" % (tel.is_idle(), tel.telescope_use))
            if bool(type(sim).is_finished(sim)) != (truth_cluster and truth_buf and truth_tel
                                           and len(sim.scheduler.observation_queue) == 0):
                self.viol("C19", "simulation-is_finished-wrong", "")

    # ------------------------------------------------------------------ C12
    def true_row(self):
        sim = self.sim
        cv = cluster_view(sim)
        tel = sim.instrument
        hot, cold = sim.buffer.hot[0], sim.buffer.cold[0]
        ingest_running = [t for t in cv["running"] if "_ingest_" in t]
        busy = set(cv["occupied"])
        for t in ingest_running:
            if t in self.alloc:
                busy.add(self.alloc[t][1])
        return {
            "available_resources": self.total_machines - len(busy),
            "ingest_resources": len(ingest_running),
            "running_tasks": len(cv["running"]),
            "finished_tasks": sum(1 for _, f in cv["finished"] if f),
            "provisioned_observations": len(cv["idle"]),
            "hot_buffer": fr(hot.current_capacity),
            "cold_buffer": fr(cold.current_capacity),
            "stored": len(hot.observations["stored"]) + len(cold.observations["stored"]),
            "observations_waiting": sum(1 for o in tel.observations if str(o.status.value) == "WAITING"),
            "observations_finished": sum(1 for o in tel.observations if str(o.status.value) == "FINISHED"),
            "scheduler_observation_queue": len(sim.scheduler.observation_queue),
        }

    def note_instant_start(self):
        """called at the beginning of every block: remember the state in which a new instant began"""
        now = self.sim.env.now
        if now != self._instant:
            self._instant = now
            try:
                self._truth_instant = self.true_row()
            except Exception:   # noqa
                self._truth_instant = None

    def check_row_pre(self):
        self._truth = self.true_row()
        self._nrows = len(self.sim.monitor.df)

    def check_row_post(self):
        df = self.sim.monitor.df
        now = self.sim.env.now
        if len(df) != self._nrows + 1:
            self.viol("C12", "monitor-row-count", "rows %d -> %d in one monitor block" % (self._nrows, len(df)))
            return
        if len(df) != int(now) + 1 or now != int(now):
            self.viol("C12", "row-index-not-timestep", "row %d written at time %s" % (len(df) - 1, fr(now)))
        row = df.iloc[-1]
        for c, want in self._truth.items():
            got = fr(row[c])
            if got != want:
                self.viol("C12", "row-misreports-" + c, "t=%s reported %s true %s" % (fr(now), got, want))
        # ... and that state is the one in which the timestep BEGAN (only task bodies may run before the monitor,
        # and they do not touch what the row reports)
        if self.simpy_order and self._truth_instant is not None and self._instant == now:
            for c, want in self._truth_instant.items():
                got = fr(row[c])
                if got != want:
                    self.viol("C12", "row-not-begin-of-step-" + c,
                              "t=%s reported %s, at the beginning of the step it was %s" % (fr(now), got, want))
        self.rowcheck += 1

    # ------------------------------------------------------------ final checks
    def final_checks(self, rec):
        sim = self.sim
        spec = self.h.spec
        tel = sim.instrument
        completed = rec["exception"] is None and not rec.get("nonterminated") and rec.get("until") is None
        tasks = all_tasks(sim)
        cv = cluster_view(sim)
        hot, cold = sim.buffer.hot[0], sim.buffer.cold[0]
        # C06 spans ---------------------------------------------------------
        for tid, t in tasks.items():
            if t.aft == -1 or t.ast == -1:
                continue
            span = F(t.aft) - F(t.ast)
            if "_ingest_" in tid:
                o = [x for x in tel.observations if task_obs(tid) == x.name][0]
                if span != F(o.duration):
                    self.viol("C06", "ingest-span-not-duration", "%s span %s duration %s" % (tid, span, o.duration))
                    self.viol("C08", "ingest-span-not-duration", "%s span %s duration %s" % (tid, span, o.duration))
                continue
            if tid in self.calc and tid in self.alloc:
                dur, total = self.calc[tid]
                m = sim.cluster.machine_ids[self.alloc[tid][1]]
                if t.flops > 0 or t.task_data > 0:
                    # machine speed per timestep, from the configuration file (per-second rate x unit),
                    # not from the parsed Machine object
                    unit = spec.get("timestep", "seconds")
                    mult = {"seconds": 1, "minutes": 60, "hours": 3600}.get(unit, unit)
                    sm = [x for x in spec["machines"] if x["id"] == m.id]
                    cpu, bw = (sm[0]["flops"] * mult, sm[0]["bw"] * mult) if sm else (m.cpu, m.bandwidth)
                    if (cpu, bw) != (m.cpu, m.bandwidth):
                        self.viol("C16", "machine-speed-not-scaled", "%s parsed (%s,%s) config x unit (%s,%s)" % (m.id, m.cpu, m.bandwidth, cpu, bw))
                    want = max(int(t.flops // cpu), int(t.task_data // bw))
                    if dur != want:
                        self.viol("C06", "runtime-formula", "%s duration %s, work/speed gives %s" % (tid, dur, want))
                        # C15: the delay is drawn for the runtime the task has on the machine it runs on
                        self.viol("C15", "delay-drawn-for-another-runtime",
                                  "%s: the delay model was asked about %s steps, the task's runtime on %s is %s" % (tid, dur, m.id, want))
                    if total < want:
                        self.viol("C15", "delay-shortened-task", "%s runtime %s -> %s" % (tid, want, total))
                if total < dur:
                    self.viol("C15", "delay-shortened-task", "%s %s -> %s" % (tid, dur, total))
                if span != max(1, F(total)):
                    self.viol("C06", "span-not-runtime", "%s aft-ast=%s runtime(with delay)=%s" % (tid, span, total))
                if total > dur and not t.delay_flag:
                    self.viol("C15", "delay-not-flagged", "%s %s -> %s" % (tid, dur, total))
        # C01 on the task records: the recorded [ast, aft) intervals of the tasks that ran on one machine
        # never overlap
        if (self.want("C01") or self.want("C17")) and self.simpy_order:      # (release timing inside an instant depends on the order)
            per = {}
            for tid, t in tasks.items():
                if t.aft == -1 or t.ast == -1 or tid not in self.alloc:
                    continue
                per.setdefault(self.alloc[tid][1], []).append((F(t.ast), F(t.aft), tid))
            for mid_, iv in per.items():
                iv.sort()
                for (a1, f1, t1), (a2, f2, t2) in zip(iv, iv[1:]):
                    if a2 < f1:
                        # K6 predicate: the earlier task ran 3 or more steps and the next one starts exactly
                        # one step before its recorded finish (the machine was given back one step early)
                        k6 = (f1 - a1 >= 3) and (0 < f1 - a2 <= 1)
                        self.viol("C01", "recorded-intervals-overlap",
                                  "machine %s: %s [%s,%s) and %s [%s,%s)" % (mid_, t1, a1, f1, t2, a2, f2),
                                  sig="recorded-intervals-overlap" + (":at-most-one-step:after-task>=3" if k6 else ""))
                        if self.h.spec["scheduling"]["kind"] == "dynamic":
                            # C17: a busy planned machine is waited for - until the finish its occupant records
                            self.viol("C17", "planned-machine-not-waited-for",
                                      "machine %s: %s started at %s, %s holds it until %s" % (mid_, t2, a2, t1, f1))
        # C03 precedence -----------------------------------------------------
        for o in tel.observations:
            if o.plan is None or o.plan.graph is None:
                continue
            g = o.plan.graph
            # the volume of an edge as the workflow FILE gives it (not as the plan's tasks carry it)
            filevol = {}
            for so in spec["observations"]:
                if so["name"] == o.name:
                    for e in so["workflow"]["edges"]:
                        filevol[(str(e[0]), str(e[1]))] = e[2]
            for t in g.nodes:
                if t.ast == -1:
                    continue
                arrivals = []
                for p in g.predecessors(t):
                    if p.aft == -1 or F(p.aft) > F(t.ast):
                        self.viol("C03", "started-before-predecessor-finished",
                                  "%s ast %s, pred %s aft %s" % (t.id, fr(t.ast), p.id, fr(p.aft)))
                    if t.id in self.alloc and p.id in self.alloc and self.alloc[p.id][1] != self.alloc[t.id][1]:
                        bw = sim.cluster.machine_ids[self.alloc[t.id][1]].bandwidth
                        vol = filevol.get((str(p.id).rsplit("_", 1)[-1], str(t.id).rsplit("_", 1)[-1]), t.io[p.id])
                        unit = spec.get("timestep", "seconds")
                        arrivals.append(F(p.aft) + Fraction(vol) / Fraction(bw))
                if t.id in self.alloc and spec["scheduling"]["kind"] != "adversary":
                    at = Fraction(self.alloc[t.id][0]) if not isinstance(self.alloc[t.id][0], str) else Fraction(self.alloc[t.id][0])
                    want = max([at] + arrivals)
                    if F(t.ast) != want:
                        self.viol("C03", "start-not-max-of-allocation-and-arrivals",
                                  "%s ast %s, allocation %s arrivals %s" % (t.id, fr(t.ast), at, arrivals))
                    if arrivals and max(arrivals) > at:
                        self.feat["fractional"] += 1
        # C04 / C02 / C07 end state -------------------------------------------
        for tid, n in self.dowork_count.items():
            if n > 1:
                self.viol("C04", "task-started-twice", "%s x%d" % (tid, n))
        if completed:
            for o in tel.observations:
                if len(self.admit.get(o.name, [])) != 1:
                    self.viol("C04", "observation-not-observed-once", "%s admitted %d times" % (o.name, len(self.admit.get(o.name, []))))
                if self.status_hist[o.name] != ["WAITING", "RUNNING", "FINISHED"]:
                    self.viol("C08", "status-sequence", "%s %s" % (o.name, self.status_hist[o.name]))
                d = tel.pipelines[o.name]["ingest_demand"]
                for i in range(d):
                    if self.dowork_count.get("%s_ingest_t%d" % (o.name, i), 0) != 1:
                        self.viol("C04", "ingest-task-not-run-once", "%s_ingest_t%d" % (o.name, i))
                if sum(1 for t in self.dowork_count if "_ingest_t" in t and task_obs(t) == o.name) != d:
                    self.viol("C08", "ingest-task-count", "%s" % o.name)
                nn = len(o.__dict__.get("_verif_nodes", [])) or len(
                    [n for n in self.h.spec["observations"] if n["name"] == o.name][0]["workflow"]["nodes"])
                ran = [t for t in self.dowork_count if "_ingest_t" not in t and task_obs(t) == o.name]
                if len(ran) != nn:
                    self.viol("C04", "workflow-task-not-run-once", "%s ran %d of %d" % (o.name, len(ran), nn))
                if o.total_data_size != o.ingest_data_rate * o.duration:
                    self.viol("C07", "deposit-total", "%s deposited %s, rate*duration %s" % (
                        o.name, fr(o.total_data_size), fr(o.ingest_data_rate * o.duration)))
            if cv["running"] or cv["occupied"] or cv["ingest"]:
                self.viol("C04", "not-quiescent-cluster", str(cv))
            if cv["idle"] or cv["nprov"] != 0 and spec["scheduling"]["kind"] == "batch":
                self.viol("C04", "reservation-outstanding", "%s nprov=%s" % (cv["idle"], cv["nprov"]))
                self.viol("C09", "reservation-not-released", "%s" % cv["idle"])
                self.viol("C02", "reservation-outstanding-at-end", "%s" % cv["idle"])
            if sorted(cv["available"]) != sorted(self.machine_ids):
                self.viol("C02", "machines-not-all-available-at-end", str(cv["available"]))
                self.viol("C04", "machines-not-all-available-at-end", str(cv["available"]))
            if sim.scheduler.observation_queue:
                self.viol("C04", "queue-not-empty-at-end", "")
            if sim.scheduler.provision_ingest != 0:
                for pr in ("C04", "C05", "C08"):
                    self.viol(pr, "ingest-reservation-outstanding-at-end",
                              "scheduler.provision_ingest == %s after the run completed" % sim.scheduler.provision_ingest)
            if hot.current_capacity != hot.total_capacity or cold.current_capacity != cold.total_capacity:
                self.viol("C04", "buffers-not-empty-at-end", "")
                self.viol("C07", "buffers-not-full-free-at-end", "hot %s/%s cold %s/%s" % (
                    fr(hot.current_capacity), fr(hot.total_capacity), fr(cold.current_capacity), fr(cold.total_capacity)))
            out = rec.get("out")
            if out is not None:
                ids = out["task_order"]
                if len(ids) != len(set(ids)) or set(ids) != set(self.dowork_count):
                    self.viol("C04", "task-table-rows", "table %d rows, executed %d tasks" % (len(ids), len(self.dowork_count)))
                if any(not v["finished"] for v in out["tasks"].values()):
                    self.viol("C04", "task-table-unfinished-row", "")
            # C08 on time when idle
            self.check_on_time(rec)
            self.check_events(rec)
            self.check_delay_status(rec)
        elif rec["exception"] is None and not rec.get("nonterminated"):
            # a paused / partial run: hand-over completeness can still be judged
            self.check_log_vs_emitted(rec)
        self.check_events_prefix()
        out = rec.get("out")
        if out is not None and rec["exception"] is None:
            for tid, tr in out.get("task_truth", {}).items():
                row = out["tasks"].get(tid)
                if row is None or row["ast"] != tr["ast"] or row["aft"] != tr["aft"]:
                    self.viol("C04", "task-table-row-wrong", "%s table %s truth %s" % (tid, row, tr))
                    self.viol("C06", "task-table-row-wrong", "%s table %s truth %s" % (tid, row, tr))
                    self.viol("C11", "task-table-row-wrong", "%s table %s truth %s" % (tid, row, tr))
        # C12 row count
        out = rec.get("out")
        if out is not None and rec["exception"] is None:
            n = len(out["rows"])
            end = rec["end"]
            if isinstance(end, int) and n != end:
                self.viol("C12", "row-count-not-steps", "%d rows for %s steps" % (n, end))

    def check_on_time(self, rec):
        """C08: an observation that falls due while the system is completely idle
        starts exactly on time.  Evaluated from the monitor rows: if at the first
        step >= est nothing was running/stored/queued and no other observation was
        admitted that step before it, its 'started' stamp must be that step."""
        tel = self.sim.instrument
        rows = rec["out"]["rows"] if rec.get("out") else []
        for o in tel.observations:
            due = math.ceil(o.est)
            if due >= len(rows):
                continue
            r = rows[due]
            idle = (r["running_tasks"] == 0 and r["ingest_resources"] == 0 and r["stored"] == 0 and
                    r["scheduler_observation_queue"] == 0 and r["provisioned_observations"] == 0 and
                    r["hot_buffer"] == fr(self.sim.buffer.hot[0].total_capacity) and
                    r["cold_buffer"] == fr(self.sim.buffer.cold[0].total_capacity) and
                    r["available_resources"] == self.total_machines)
            # another observation that is also due and still waiting at that step competes
            # for the same resources: the system is then not "completely idle" for o
            others_due = [x for x in tel.observations if x is not o and math.ceil(x.est) <= due
                          and (x.ast is None or x.ast >= due)]
            none_running = (r["observations_waiting"] + r["observations_finished"] == len(tel.observations))
            if idle and none_running and not others_due and self.feasible_alone(o):
                if o.ast != due:
                    self.viol("C08", "idle-system-late-start", "%s due %s started %s" % (o.name, due, fr(o.ast)))

    def feasible_alone(self, o):
        tel = self.sim.instrument
        hot, cold = self.sim.buffer.hot[0], self.sim.buffer.cold[0]
        d = tel.pipelines[o.name]["ingest_demand"]
        vol = o.ingest_data_rate * o.duration
        return (o.demand <= tel.total_arrays and d <= tel.max_ingest and d <= self.total_machines
                and vol < hot.total_capacity and vol <= cold.total_capacity)

    # ------------------------------------------------------------------ C13
    def check_log_vs_emitted(self, rec):
        out = rec.get("out")
        if out is None:
            return
        log = [tuple(e) for e in out["events"]]
        # completeness: everything emitted is in the log exactly once, with its stamp
        logged = sorted((e[0], e[2], e[3], e[4]) for e in log)
        emitted2 = sorted((t, o, e, r) for (t, o, e, r) in self.emits)
        if logged != emitted2:
            missing = [x for x in emitted2 if x not in logged]
            extra = [x for x in logged if x not in emitted2]
            dup = len(logged) != len(set(logged)) and not extra
            self.viol("C13", "log-differs-from-emitted",
                      "missing %s extra %s duplicates %s" % (missing[:4], extra[:4], dup))

    def check_events(self, rec):
        out = rec.get("out")
        if out is None:
            return
        log = [tuple(e) for e in out["events"]]
        self.check_log_vs_emitted(rec)
        tel = self.sim.instrument
        for o in tel.observations:
            evs = [e for e in log if e[2] == o.name]

            def times(event, resource):
                return [e[0] for e in evs if e[3] == event and e[4] == resource]
            need = [("started", "telescope"), ("finished", "telescope"), ("added", "buffer"),
                    ("removed", "buffer"), ("added", "queue"), ("removed", "queue"),
                    ("started", "allocation"), ("stopped", "allocation")]
            tt = {}
            for (ev, res) in need:
                ts = times(ev, res)
                if len(ts) != 1:
                    self.viol("C13", "lifecycle-event-count", "%s %s %s: %d entries" % (o.name, res, ev, len(ts)))
                tt[(ev, res)] = ts[0] if ts else None
            if any(v is None for v in tt.values()):
                continue
            st = tt[("started", "telescope")]
            if st != fr(o.ast):
                self.viol("C13", "started-stamp", "%s log %s actual %s" % (o.name, st, fr(o.ast)))
            if tt[("finished", "telescope")] != st + o.duration:
                self.viol("C13", "finished-not-started-plus-duration", "%s started %s finished %s duration %s" % (
                    o.name, st, tt[("finished", "telescope")], fr(o.duration)))
            chain = [st, tt[("added", "queue")], tt[("started", "allocation")],
                     tt[("stopped", "allocation")], tt[("removed", "queue")]]
            if any(chain[i] > chain[i + 1] for i in range(len(chain) - 1)):
                self.viol("C13", "causal-order", "%s %s" % (o.name, chain))
            if tt[("added", "buffer")] != st:
                self.viol("C13", "buffer-added-not-at-start", "%s %s vs %s" % (o.name, tt[("added", "buffer")], st))
            if tt[("removed", "buffer")] != tt[("stopped", "allocation")]:
                self.viol("C13", "buffer-removed-not-at-allocation-stopped", o.name)

    def check_events_prefix(self):
        """C13 clauses that hold of every prefix of a run (also of a run that raised or did not terminate):
        each life-cycle event at most once per observation, and none without its causal predecessor."""
        tel = self.sim.instrument
        for o in tel.observations:
            tt = {}
            for (t, name, ev, res) in self.emits:
                if name == o.name:
                    tt.setdefault((ev, res), []).append(F(t))
            for k, ts in tt.items():
                if len(ts) > 1 and k[1] in ("telescope", "buffer", "queue", "allocation") and k[0] != "transfer":
                    self.viol("C13", "lifecycle-event-repeated", "%s %s %s: %s" % (o.name, k[1], k[0], ts))
            first = lambda ev, res: (tt.get((ev, res)) or [None])[0]
            st = first("started", "telescope")
            preds = [(("finished", "telescope"), ("started", "telescope")),
                     (("added", "buffer"), ("started", "telescope")),
                     (("added", "queue"), ("started", "telescope")),
                     (("started", "allocation"), ("added", "queue")),
                     (("stopped", "allocation"), ("started", "allocation")),
                     (("removed", "queue"), ("stopped", "allocation")),
                     (("removed", "buffer"), ("stopped", "allocation"))]
            for (e, p) in preds:
                te, tp = first(*e), first(*p)
                if te is not None and (tp is None or tp > te):
                    self.viol("C13", "event-without-predecessor",
                              "%s: %s %s at %s, but %s %s at %s" % (o.name, e[1], e[0], te, p[1], p[0], tp))
            fin = first("finished", "telescope")
            if fin is not None and st is not None and fin != st + F(o.duration):
                self.viol("C13", "finished-not-started-plus-duration",
                          "%s started %s finished %s duration %s" % (o.name, st, fin, fr(o.duration)))

    # ------------------------------------------------------------------ C15
    def check_delay_status(self, rec):
        delayed = [tid for tid, (d, tot) in self.calc.items() if tot > d]
        out = rec.get("out")
        if delayed and out and out["rows"]:
            # once the task has completed (and its plan been pruned) the scheduler reports DELAYED
            if self.sim.scheduler.schedule_status.value != "DELAYED":
                self.viol("C15", "delay-not-reported-by-scheduler", "delayed tasks %s" % delayed[:3])
