"""py2lean — a small translator from the "PyLite" subset of Python to Lean 4.

On every check run it re-extracts the decision functions listed in FUNCS from
/repo's CURRENT source and writes lean/TopsimGen/Extracted.lean.  The bridge
lemmas in lean/TopsimProofs/Bridge.lean prove each extracted definition equal to
the hand-written model definition the property theorems are about; a semantic
edit of one of these functions changes the generated text and its bridge lemma
stops compiling.

PyLite: parameters and locals; if/elif/else; return; raise (-> Except.error);
+ - * / (true division, exact rationals), int(a / b) on naturals (floor
division: the float assumption of C06), round(), min/max, comparisons (also
chained), and/or/not, len, in / not in, is None / is not None, a
`for x in xs: if c: return v` search loop, augmented assignment on mapped
places.  Sub-expressions are mapped to model terms through a per-function
binding table (the access-path table: part of the trusted base).  Anything
else makes the function `untranslatable:<construct>`.
"""
import ast
import os
import re
import sys
import textwrap

REPO = os.environ.get("TOPSIM_REPO", "/repo")
VERIF = os.path.dirname(os.path.dirname(os.path.abspath(__file__)))
OUT = os.path.join(VERIF, "lean", "TopsimGen", "Extracted.lean")


class Untranslatable(Exception):
    pass


ERR = {"RuntimeError": "Err.runtime", "ValueError": "Err.value", "IndexError": "Err.index",
       "KeyError": "Err.key", "TypeError": "Err.type"}


class Tr:
    def __init__(self, spec):
        self.spec = spec
        self.bind = spec.get("bind", {})
        self.mut = spec.get("mut", {})         # python place text -> lean mutable variable
        self.locals = {}
        for v in spec.get("mut_init", {}):
            self.locals[v] = True
        self.monadic = spec.get("monadic", False)

    def norm(self, node):
        return ast.unparse(node).replace('"', "'")

    # ---------------------------------------------------------- expressions
    def expr(self, e):
        txt = self.norm(e)
        if txt in self.mut:
            return self.mut[txt]
        if txt in self.bind:
            return self.bind[txt]
        if isinstance(e, ast.Constant):
            v = e.value
            if v is True:
                return "true"
            if v is False:
                return "false"
            if v is None:
                return "none"
            if isinstance(v, int):
                return str(v)
            if isinstance(v, float):
                from fractions import Fraction
                from decimal import Decimal
                f = Fraction(Decimal(repr(v)))
                return "((%d : Rat) / %d)" % (f.numerator, f.denominator)
            if isinstance(v, str):
                return '"%s"' % v
            raise Untranslatable("constant %r" % (v,))
        if isinstance(e, ast.Name):
            if e.id in self.locals or e.id in self.spec.get("params_py", []):
                return self.spec.get("rename", {}).get(e.id, e.id)
            raise Untranslatable("free name %s" % e.id)
        if isinstance(e, ast.BinOp):
            op = {ast.Add: "+", ast.Sub: "-", ast.Mult: "*", ast.Div: "/"}.get(type(e.op))
            if op is None:
                raise Untranslatable("operator %s" % type(e.op).__name__)
            return "(%s %s %s)" % (self.expr(e.left), op, self.expr(e.right))
        if isinstance(e, ast.UnaryOp):
            if isinstance(e.op, ast.Not):
                return "(!%s)" % self.expr(e.operand)
            if isinstance(e.op, ast.USub):
                return "(-%s)" % self.expr(e.operand)
            raise Untranslatable("unary")
        if isinstance(e, ast.BoolOp):
            op = " && " if isinstance(e.op, ast.And) else " || "
            return "(" + op.join(self.expr(v) for v in e.values) + ")"
        if isinstance(e, ast.Compare):
            parts = []
            left = e.left
            for op, right in zip(e.ops, e.comparators):
                parts.append(self.compare(left, op, right))
                left = right
            return "(" + " && ".join(parts) + ")"
        if isinstance(e, ast.IfExp):
            return "(if %s then %s else %s)" % (self.expr(e.test), self.expr(e.body), self.expr(e.orelse))
        if isinstance(e, ast.Call):
            f = self.norm(e.func)
            if f == "len" and len(e.args) == 1:
                return "(%s).length" % self.expr(e.args[0])
            if f == "int" and len(e.args) == 1:
                a = e.args[0]
                if isinstance(a, ast.BinOp) and isinstance(a.op, ast.Div):
                    # int(x / y) on naturals: floor division (float assumption of C06)
                    return "(%s / %s)" % (self.expr(a.left), self.expr(a.right))
                return self.spec.get("int_as", "(%s)") % self.expr(a)
            if f == "round" and len(e.args) == 1:
                return "(roundHalfEven %s)" % self.expr(e.args[0])
            if f in ("min", "max") and len(e.args) == 2:
                return "(%s %s %s)" % (f, self.expr(e.args[0]), self.expr(e.args[1]))
            if f == "isinstance" and len(e.args) == 2 and self.norm(e.args[1]) == "int":
                return "(%s).isInt" % self.expr(e.args[0])
            if f == "list" and len(e.args) == 1:
                return self.expr(e.args[0])
            if f == "bool" and len(e.args) == 1:
                return self.expr(e.args[0])
            raise Untranslatable("call %s" % f)
        raise Untranslatable(type(e).__name__ + ": " + txt[:60])

    def compare(self, left, op, right):
        l, r = self.expr(left), self.expr(right)
        if isinstance(op, (ast.Is, ast.IsNot)):
            if isinstance(right, ast.Constant) and right.value is None:
                return ("(%s).isNone" if isinstance(op, ast.Is) else "(%s).isSome") % l
            return "(decide (%s %s %s))" % (l, "=" if isinstance(op, ast.Is) else "≠", r)
        if isinstance(op, ast.In):
            return "(decide (%s ∈ %s))" % (l, r)
        if isinstance(op, ast.NotIn):
            return "(decide (%s ∉ %s))" % (l, r)
        sym = {ast.Eq: "=", ast.NotEq: "≠", ast.Lt: "<", ast.LtE: "≤", ast.Gt: ">", ast.GtE: "≥"}.get(type(op))
        if sym is None:
            raise Untranslatable("comparison")
        return "(decide (%s %s %s))" % (l, sym, r)

    # ----------------------------------------------------------- statements
    def ret(self, val):
        outs = [val] if val is not None else []
        outs += [self.mut[k] for k in self.spec.get("mut_order", [])]
        outs += list(self.spec.get("extra_outs", []))
        if not outs:
            outs = ["()"]
        t = outs[0] if len(outs) == 1 else "(" + ", ".join(outs) + ")"
        return "return %s" % t

    def block(self, stmts, ind):
        lines = []
        pad = "  " * ind
        for st in stmts:
            if isinstance(st, ast.Expr):
                if isinstance(st.value, ast.Constant):
                    continue                                  # docstring
                txt = self.norm(st.value)
                if txt.startswith(("LOGGER.", "logger.", "print(")):
                    continue
                if txt in self.bind:                          # a mapped call used as a statement
                    lines.append(pad + self.bind[txt])
                    continue
                raise Untranslatable("expression statement " + txt[:40])
            if isinstance(st, ast.Pass):
                continue
            if isinstance(st, ast.Return):
                lines.append(pad + self.ret(self.expr(st.value) if st.value is not None else None))
                continue
            if isinstance(st, ast.Raise):
                name = None
                if st.exc is not None:
                    name = self.norm(st.exc.func) if isinstance(st.exc, ast.Call) else self.norm(st.exc)
                if name not in ERR:
                    raise Untranslatable("raise %s" % name)
                lines.append(pad + "throw %s" % ERR[name])
                continue
            if isinstance(st, ast.Assign) and len(st.targets) == 1:
                tgt = st.targets[0]
                ttxt = self.norm(tgt)
                if ttxt in self.mut:
                    lines.append(pad + "%s := %s" % (self.mut[ttxt], self.expr(st.value)))
                    continue
                if isinstance(tgt, ast.Name):
                    if tgt.id in self.spec.get("dead_locals", []):
                        continue
                    v = self.expr(st.value)
                    nm = self.spec.get("rename", {}).get(tgt.id, tgt.id)
                    if tgt.id in self.locals:
                        lines.append(pad + "%s := %s" % (nm, v))
                    else:
                        self.locals[tgt.id] = True
                        ty = self.spec.get("local_types", {}).get(tgt.id)
                        lines.append(pad + "let mut %s%s := %s" % (nm, (" : " + ty) if ty else "", v))
                    continue
                raise Untranslatable("assignment to " + ttxt[:40])
            if isinstance(st, ast.AugAssign):
                ttxt = self.norm(st.target)
                op = {ast.Add: "+", ast.Sub: "-", ast.Mult: "*"}.get(type(st.op))
                if op is None:
                    raise Untranslatable("augmented operator")
                if ttxt in self.mut:
                    lines.append(pad + "%s := %s %s %s" % (self.mut[ttxt], self.mut[ttxt], op, self.expr(st.value)))
                    continue
                if isinstance(st.target, ast.Name) and st.target.id in self.locals:
                    lines.append(pad + "%s := %s %s %s" % (st.target.id, st.target.id, op, self.expr(st.value)))
                    continue
                raise Untranslatable("augmented assignment to " + ttxt[:40])
            if isinstance(st, ast.If):
                lines.append(pad + "if %s then" % self.expr(st.test))
                body = self.block(st.body, ind + 1)
                lines += body if body else [pad + "  pure ()"]
                if st.orelse:
                    lines.append(pad + "else")
                    els = self.block(st.orelse, ind + 1)
                    lines += els if els else [pad + "  pure ()"]
                continue
            if isinstance(st, ast.For):
                # for x in xs: if c: return v   (a search loop)
                if (isinstance(st.target, ast.Name) and len(st.body) == 1 and isinstance(st.body[0], ast.If)
                        and not st.body[0].orelse and len(st.body[0].body) == 1
                        and isinstance(st.body[0].body[0], ast.Return) and not st.orelse):
                    x = st.target.id
                    self.locals[x] = True
                    cond = self.expr(st.body[0].test)
                    val = self.expr(st.body[0].body[0].value)
                    del self.locals[x]
                    lines.append(pad + "if (%s).any (fun %s => %s) then" % (self.expr(st.iter), x, cond))
                    lines.append(pad + "  " + self.ret(val))
                    continue
                raise Untranslatable("for loop")
            raise Untranslatable(type(st).__name__)
        return lines


def find_function(tree, cls, func):
    for node in ast.walk(tree):
        if isinstance(node, ast.ClassDef) and node.name == cls:
            for f in node.body:
                if isinstance(f, ast.FunctionDef) and f.name == func:
                    return f
    if cls is None:
        for node in tree.body:
            if isinstance(node, ast.FunctionDef) and node.name == func:
                return node
    return None


def slice_var(fn, var):
    """the statements of `fn` that (only) assign `var`, in order"""
    out = []

    def only_assigns(stmts):
        for s in stmts:
            if isinstance(s, ast.Assign) and len(s.targets) == 1 and isinstance(s.targets[0], ast.Name) \
                    and s.targets[0].id == var:
                continue
            if isinstance(s, ast.If) and only_assigns(s.body) and only_assigns(s.orelse):
                continue
            if isinstance(s, ast.Expr) and isinstance(s.value, ast.Constant):
                continue
            return False
        return True
    for s in fn.body:
        if isinstance(s, ast.Assign) and len(s.targets) == 1 and isinstance(s.targets[0], ast.Name) \
                and s.targets[0].id == var:
            out.append(s)
        elif isinstance(s, ast.If) and only_assigns(s.body) and only_assigns(s.orelse) and \
                any(isinstance(n, ast.Name) and n.id == var for n in ast.walk(s)):
            out.append(s)
    return out


def find_exprs(fn, locator):
    """expressions by locator: ('assign', name) | ('kwarg', callee, kw)"""
    found = []
    for node in ast.walk(fn):
        if locator[0] == "assign" and isinstance(node, ast.Assign) and len(node.targets) == 1 and \
                isinstance(node.targets[0], ast.Name) and node.targets[0].id == locator[1]:
            found.append(node.value)
        if locator[0] == "kwarg" and isinstance(node, ast.Call) and ast.unparse(node.func) == locator[1]:
            for kw in node.keywords:
                if kw.arg == locator[2]:
                    found.append(kw.value)
    return found


# ------------------------------------------------------------------ the table
CL = "self._clusters[c]['resources']"
CLD = "self._clusters['default']"
FUNCS = [
    # ---- C16: the three multiplier ladders and the scaling expressions
    {"name": "multiplierCluster", "file": "topsim/core/config.py", "cls": "Config", "func": "parse_cluster_config",
     "mode": "slice", "var": "timestep_multiplier", "sig": "(u : TimeUnit) : Int",
     "bind": {"self.timestep_unit == 'minutes'": "(u == TimeUnit.str \"minutes\")",
              "self.timestep_unit == 'hours'": "(u == TimeUnit.str \"hours\")",
              "isinstance(self.timestep_unit, int)": "u.isInt", "self.timestep_unit": "u.intVal"},
     "local_types": {"timestep_multiplier": "Int"}, "props": ["C16"]},
    {"name": "multiplierInstrument", "file": "topsim/core/config.py", "cls": "Config", "func": "parse_instrument_config",
     "mode": "slice", "var": "timestep_multiplier", "sig": "(u : TimeUnit) : Int",
     "bind": {"self.timestep_unit == 'minutes'": "(u == TimeUnit.str \"minutes\")",
              "self.timestep_unit == 'hours'": "(u == TimeUnit.str \"hours\")",
              "isinstance(self.timestep_unit, int)": "u.isInt", "self.timestep_unit": "u.intVal"},
     "local_types": {"timestep_multiplier": "Int"}, "props": ["C16"]},
    {"name": "multiplierBuffer", "file": "topsim/core/config.py", "cls": "Config", "func": "parse_buffer_config",
     "mode": "slice", "var": "timestep_multiplier", "sig": "(u : TimeUnit) : Int",
     "bind": {"self.timestep_unit == 'minutes'": "(u == TimeUnit.str \"minutes\")",
              "self.timestep_unit == 'hours'": "(u == TimeUnit.str \"hours\")",
              "isinstance(self.timestep_unit, int)": "u.isInt", "self.timestep_unit": "u.intVal"},
     "local_types": {"timestep_multiplier": "Int"}, "props": ["C16"]},
    {"name": "scaleCpu", "file": "topsim/core/config.py", "cls": "Config", "func": "parse_cluster_config",
     "mode": "expr", "locator": ("assign", "cpu"), "sig": "(flops m : Rat) : Rat",
     "bind": {"machines[machine]['flops']": "flops", "timestep_multiplier": "m"}, "props": ["C16"]},
    {"name": "scaleBandwidth", "file": "topsim/core/config.py", "cls": "Config", "func": "parse_cluster_config",
     "mode": "expr", "locator": ("kwarg", "Machine", "bandwidth"), "sig": "(bw m : Rat) : Rat",
     "bind": {"machines[machine]['compute_bandwidth']": "bw", "timestep_multiplier": "m"}, "props": ["C16"]},
    {"name": "scaleSysBandwidth", "file": "topsim/core/config.py", "cls": "Config", "func": "parse_cluster_config",
     "mode": "expr", "locator": ("assign", "bandwidth"), "sig": "(sysbw m : Rat) : Rat",
     "bind": {"self.cluster['system']['system_bandwidth']": "sysbw", "timestep_multiplier": "m"}, "props": ["C16"]},
    {"name": "scaleStart", "file": "topsim/core/config.py", "cls": "Config", "func": "parse_instrument_config",
     "mode": "expr", "locator": ("kwarg", "Observation", "start"), "sig": "(start m : Rat) : Rat",
     "bind": {"observation['start']": "start", "timestep_multiplier": "m"}, "props": ["C16"]},
    {"name": "scaleDuration", "file": "topsim/core/config.py", "cls": "Config", "func": "parse_instrument_config",
     "mode": "expr", "locator": ("kwarg", "Observation", "duration"), "sig": "(duration m : Rat) : Rat",
     "bind": {"observation['duration']": "duration", "timestep_multiplier": "m"}, "props": ["C16"]},
    {"name": "scaleDemand", "file": "topsim/core/config.py", "cls": "Config", "func": "parse_instrument_config",
     "mode": "expr", "locator": ("kwarg", "Observation", "demand"), "sig": "(demand m : Rat) : Rat",
     "bind": {"observation['instrument_demand']": "demand", "timestep_multiplier": "m"}, "props": ["C16"]},
    {"name": "scaleDataRate", "file": "topsim/core/config.py", "cls": "Config", "func": "parse_instrument_config",
     "mode": "expr", "locator": ("kwarg", "Observation", "data_rate"), "sig": "(rate m : Rat) : Int",
     "bind": {"observation['data_product_rate']": "rate", "timestep_multiplier": "m"}, "props": ["C16"]},
    {"name": "scaleHotCapacity", "file": "topsim/core/config.py", "cls": "Config", "func": "parse_buffer_config",
     "mode": "expr", "locator": ("kwarg", "HotBuffer", "capacity"), "sig": "(cap m : Rat) : Rat",
     "bind": {"config['hot']['capacity']": "cap", "timestep_multiplier": "m"}, "props": ["C16"]},
    {"name": "scaleHotRate", "file": "topsim/core/config.py", "cls": "Config", "func": "parse_buffer_config",
     "mode": "expr", "locator": ("kwarg", "HotBuffer", "max_ingest_data_rate"), "sig": "(rate m : Rat) : Rat",
     "bind": {"config['hot']['max_ingest_rate']": "rate", "timestep_multiplier": "m"}, "props": ["C16"]},
    {"name": "scaleColdCapacity", "file": "topsim/core/config.py", "cls": "Config", "func": "parse_buffer_config",
     "mode": "expr", "locator": ("kwarg", "ColdBuffer", "capacity"), "sig": "(cap m : Rat) : Rat",
     "bind": {"config['cold']['capacity']": "cap", "timestep_multiplier": "m"}, "props": ["C16"]},
    {"name": "scaleColdRate", "file": "topsim/core/config.py", "cls": "Config", "func": "parse_buffer_config",
     "mode": "expr", "locator": ("kwarg", "ColdBuffer", "max_data_rate"), "sig": "(rate m : Rat) : Rat",
     "bind": {"config['cold']['max_data_rate']": "rate", "timestep_multiplier": "m"}, "props": ["C16"]},
    # ---- C06
    {"name": "calculateRuntime", "file": "topsim/core/task.py", "cls": "Task", "func": "calculate_runtime",
     "mode": "func", "sig": "(flops data cpu bw : Nat) : Nat",
     "bind": {"self.flops": "flops", "self.task_data": "data", "machine.cpu": "cpu", "machine.bandwidth": "bw"},
     "local_types": {"compute_time": "Nat", "data_time": "Nat"}, "props": ["C06", "C03"]},
    # ---- C08 / C19: cluster decisions
    {"name": "checkIngestCapacity", "file": "topsim/core/cluster.py", "cls": "Cluster", "func": "check_ingest_capacity",
     "mode": "func", "sig": "(c : Cluster) (pipeline_demand max_ingest_resources : Nat) (reserved : Int) : Bool",
     "params_py": ["pipeline_demand", "max_ingest_resources", "reserved"],
     "bind": {CL + "['available']": "c.available", CL + "['ingest']": "c.ingest"},
     "local_types": {"num_available": "Int", "num_ingest": "Int", "promised": "Int"}, "props": ["C08", "C05"]},
    {"name": "clusterIsIdle", "file": "topsim/core/cluster.py", "cls": "Cluster", "func": "is_idle",
     "mode": "func", "sig": "(c : Cluster) : Bool",
     "bind": {CLD + "['tasks']['running']": "c.running", CLD + "['tasks']['waiting']": "([] : List Tid)",
              CLD + "['resources']['occupied']": "c.occupied", CLD + "['resources']['ingest']": "c.ingest"},
     "local_types": {"no_tasks_running": "Bool", "no_resources_occupied": "Bool"}, "props": ["C19", "C04"]},
    {"name": "clusterIsOccupied", "file": "topsim/core/cluster.py", "cls": "Cluster", "func": "is_occupied",
     "mode": "func", "sig": "(c : Cluster) (machine : Mid) : Bool", "params_py": ["machine"],
     "bind": {CL + "['occupied']": "c.occupied", CL + "['ingest']": "c.ingest"}, "props": ["C19", "C01"]},
    # ---- C08: observation readiness
    {"name": "obsIsReady", "file": "topsim/core/instrument.py", "cls": "Observation", "func": "is_ready",
     "mode": "func", "sig": "(o : Obs) (current_time : Nat) (capacity : Int) : Bool",
     "params_py": ["current_time", "capacity"],
     "bind": {"self.est": "o.est", "self.demand": "(o.demand : Int)",
              "self.status is RunStatus.WAITING": "(o.status == RunStatus.waiting)"}, "props": ["C08"]},
    {"name": "obsIsFinished", "file": "topsim/core/instrument.py", "cls": "Observation", "func": "is_finished",
     "mode": "func", "sig": "(o : Obs) (ast : Nat) (astNone : Bool) (current_time : Nat) (telescope_status : Bool) : Bool",
     "params_py": ["current_time", "telescope_status"],
     "bind": {"self.ast is None": "astNone", "self.ast": "ast", "self.duration": "o.duration",
              "self.status is not RunStatus.FINISHED": "(o.status != RunStatus.finished)"}, "props": ["C08", "C13"]},
    # ---- C07 / C18 / C19: buffer decisions and arithmetic
    {"name": "hotHasCapacityFor", "file": "topsim/core/buffer.py", "cls": "HotBuffer", "func": "has_capacity_for",
     "mode": "func", "sig": "(cur : Int) (transferSize : Option Int) (observation_size : Int) : Bool",
     "params_py": ["observation_size"],
     "bind": {"self.observations['transfer']": "transferSize.isSome",
              "self.observations['transfer'].total_data_size": "(transferSize.getD 0)",
              "self.current_capacity": "cur"}, "local_types": {"size": "Int"}, "props": ["C07", "C18"]},
    {"name": "coldHasCapacityFor", "file": "topsim/core/buffer.py", "cls": "ColdBuffer", "func": "has_capacity_for",
     "mode": "func", "sig": "(cur : Int) (transferSize : Option Int) (observation_size : Int) : Bool",
     "params_py": ["observation_size"],
     "bind": {"self.observations['transfer']": "transferSize.isSome",
              "self.observations['transfer'].total_data_size": "(transferSize.getD 0)",
              "self.current_capacity": "cur"}, "local_types": {"size": "Int"}, "props": ["C07", "C08", "C18"]},
    {"name": "processIncoming", "file": "topsim/core/buffer.py", "cls": "HotBuffer", "func": "process_incoming_data_stream",
     "mode": "func", "monadic": True, "sig": "(cur0 maxRate : Int) (incoming_datarate : Int) : Except Err (Int × Int)",
     "params_py": ["incoming_datarate"], "int_as": "%s",
     "bind": {"self.max_ingest_data_rate": "maxRate"},
     "mut": {"self.current_capacity": "cur"}, "mut_order": ["self.current_capacity"], "mut_init": {"cur": "cur0"},
     "props": ["C07"]},
    {"name": "overThreshold", "file": "topsim/core/buffer.py", "cls": "Buffer", "func": "check_buffer_over_data_threshold",
     "mode": "func", "sig": "(total cur threshold : Rat) : Bool",
     "bind": {"self.hot[b].total_capacity": "total", "self.hot[b].current_capacity": "cur", "self.threshold": "threshold"},
     "props": ["C05", "C04"]},
    {"name": "projectCapacity", "file": "topsim/core/buffer.py", "cls": "Buffer", "func": "project_buffer_capacity",
     "mode": "func", "sig": "(total cur size threshold : Rat) : Bool",
     "bind": {"self.hot[b].total_capacity": "total", "self.hot[b].current_capacity": "cur",
              "obs.total_data_size": "size", "self.threshold": "threshold"},
     "local_types": {"numerator": "Rat"}, "props": ["C05"]},
    {"name": "schedulerIsIdle", "file": "topsim/core/scheduler.py", "cls": "Scheduler", "func": "is_idle",
     "mode": "func", "sig": "(s : Sys) : Bool", "bind": {"self.observation_queue": "s.queue"}, "props": ["C19"]},
    {"name": "simulationIsFinished", "file": "topsim/core/simulation.py", "cls": "Simulation", "func": "is_finished",
     "mode": "func", "sig": "(s : Sys) : Bool",
     "bind": {"self.buffer.is_empty()": "s.buf.isEmpty", "self.cluster.is_idle()": "s.cl.isIdle",
              "self.scheduler.is_idle()": "s.queue.isEmpty", "self.instrument.is_idle()": "s.telIsIdle"},
     "props": ["C19", "C04", "C05"]},
    # ---- C14: the plan's predecessor / successor queries read the (never pruned) plan graph
    {"name": "planPredecessors", "file": "topsim/core/planner.py", "cls": "WorkflowPlan", "func": "get_task_predecessors",
     "mode": "func", "sig": "(plan : Plan) (task_id : Tid) : List Tid", "params_py": ["task_id"],
     "bind": {"self.graph.predecessors(task_id)": "plan.preds task_id"}, "props": ["C14"]},
    {"name": "planSuccessors", "file": "topsim/core/planner.py", "cls": "WorkflowPlan", "func": "get_task_successors",
     "mode": "func", "sig": "(plan : Plan) (task_id : Tid) : List Tid", "params_py": ["task_id"],
     "bind": {"self.graph.successors(task_id)": "plan.succs task_id"}, "props": ["C14"]},
    {"name": "bufferIsEmpty", "file": "topsim/core/buffer.py", "cls": "Buffer", "func": "is_empty",
     "mode": "func", "sig": "(b : Buffer) : Bool",
     # the configuration parser builds exactly one hot and one cold tier ({0: hot}, {0: cold})
     "bind": {"self.hot": "[b.hot]", "self.cold": "[b.cold]",
              "self.hot[buf].total_capacity": "buf.total", "self.hot[buf].current_capacity": "buf.cur",
              "self.cold[buf].total_capacity": "buf.total", "self.cold[buf].current_capacity": "buf.cur"},
     "props": ["C19", "C04"]},
    {"name": "telescopeIsIdle", "file": "topsim/user/telescope.py", "cls": "Telescope", "func": "is_idle",
     "mode": "func", "sig": "(s : Sys) : Bool",
     "bind": {"self.observations": "s.obs", "observation.status != RunStatus.FINISHED": "(observation.status != RunStatus.finished)",
              "not self.telescope_status": "(!s.telStatus)", "self.telescope_use == 0": "(s.telUse == 0)"},
     "props": ["C19"]},
    # ---- C05 / C08: the scheduler-side capacity check with its reservation (F4)
    {"name": "schedCheckIngest", "file": "topsim/core/scheduler.py", "cls": "Scheduler", "func": "check_ingest_capacity",
     "mode": "func", "sig": "(bufOk clOk : Bool) (d max_ingest : Int) (prov0 : Int) : Bool × Int",
     "params_py": ["max_ingest"],
     "bind": {"self.buffer.check_buffer_capacity(observation)": "bufOk",
              "pipelines[observation.name]['ingest_demand']": "d",
              "self.cluster.check_ingest_capacity(pipeline_demand, max_ingest, reserved=self.provision_ingest)": "clOk"},
     "mut": {"self.provision_ingest": "prov"}, "mut_order": ["self.provision_ingest"], "mut_init": {"prov": "prov0"},
     "local_types": {"buffer_capacity": "Bool", "cluster_capacity": "Bool", "pipeline_demand": "Int"}, "props": ["C05", "C08"]},
    # ---- C07 / C08: whole-volume admission test of the buffer
    {"name": "checkBufferCapacity", "file": "topsim/core/buffer.py", "cls": "Buffer", "func": "check_buffer_capacity",
     "mode": "func", "monadic": True,
     "sig": "(duration rate hotTotal hotCur : Int) (coldHas : Int → Bool) : Except Err Bool",
     "bind": {"observation.duration": "duration", "observation.ingest_data_rate": "rate",
              "self.hot[b].total_capacity": "hotTotal", "self.hot[b].current_capacity": "hotCur",
              "self.cold[b].has_capacity_for(size)": "(coldHas size)"},
     "dead_locals": ["b"], "local_types": {"size": "Int"}, "props": ["C07", "C08"]},
    # ---- C07: freeing on completion
    {"name": "hotRemove", "file": "topsim/core/buffer.py", "cls": "HotBuffer", "func": "remove",
     "mode": "func", "sig": "(cur0 : Int) (scheduled0 finished0 : List Oid) (o : Oid) (size : Int) : Bool × Int × List Oid × List Oid",
     "bind": {"observation in self.observations['scheduled']": "(decide (o ∈ scheduled))",
              "observation.total_data_size": "size",
              "self.observations['finished'].append(observation)": "finished := finished ++ [o]",
              "self.observations['scheduled'].remove(observation)": "scheduled := scheduled.erase o"},
     "mut": {"self.current_capacity": "cur"}, "mut_order": ["self.current_capacity"],
     "mut_init": {"cur": "cur0", "scheduled": "scheduled0", "finished": "finished0"},
     "extra_outs": ["scheduled", "finished"], "props": ["C07"]},
    # ---- C18: per-step arithmetic of a tier move (all four methods)
    {"name": "hotTransfer", "file": "topsim/core/buffer.py", "cls": "HotBuffer", "func": "transfer_observation",
     "mode": "func", "sig": "(cur0 : Int) (slot0 : Option Oid) (o : Oid) (size transfer_rate residual_data : Int) : Int × Int × Option Oid",
     "params_py": ["transfer_rate", "residual_data"], "mut_params": ["residual_data"],
     "bind": {"self.observations['transfer'] is None": "slot.isNone", "observation.total_data_size": "size",
              "observation": "(some o)"},
     "mut": {"self.current_capacity": "cur", "self.observations['transfer']": "slot"},
     "mut_order": ["self.current_capacity", "self.observations['transfer']"],
     "mut_init": {"cur": "cur0", "slot": "slot0"}, "props": ["C18"]},
    {"name": "coldTransfer", "file": "topsim/core/buffer.py", "cls": "ColdBuffer", "func": "transfer_observation",
     "mode": "func", "sig": "(cur0 : Int) (slot0 : Option Oid) (o : Oid) (size transfer_rate residual_data : Int) : Int × Int × Option Oid",
     "params_py": ["transfer_rate", "residual_data"], "mut_params": ["residual_data"],
     "bind": {"self.observations['transfer'] is None": "slot.isNone", "observation.total_data_size": "size",
              "observation": "(some o)"},
     "mut": {"self.current_capacity": "cur", "self.observations['transfer']": "slot"},
     "mut_order": ["self.current_capacity", "self.observations['transfer']"],
     "mut_init": {"cur": "cur0", "slot": "slot0"}, "props": ["C18"]},
    {"name": "hotReceive", "file": "topsim/core/buffer.py", "cls": "HotBuffer", "func": "receive_observation",
     "mode": "func", "sig": "(cur0 : Int) (stored0 : List Oid) (o : Oid) (size residual_data data_rate : Int) : Int × Int × Option Oid × List Oid",
     "params_py": ["residual_data", "data_rate"], "mut_params": ["residual_data"],
     "bind": {"observation.total_data_size": "size", "observation": "(some o)",
              "self.observations['stored'].append(observation)": "stored := stored ++ [o]"},
     "mut": {"self.current_capacity": "cur", "self.observations['transfer']": "slot"},
     "mut_order": ["self.current_capacity", "self.observations['transfer']"],
     "mut_init": {"cur": "cur0", "slot": "(none : Option Oid)", "stored": "stored0"},
     "extra_outs": ["stored"], "props": ["C18"]},
    {"name": "coldReceive", "file": "topsim/core/buffer.py", "cls": "ColdBuffer", "func": "receive_observation",
     "mode": "func", "sig": "(cur0 : Int) (stored0 : List Oid) (maxRate : Int) (o : Oid) (size residual_data data_rate : Int) (rateNone : Bool) : Int × Int × Option Oid × List Oid",
     "params_py": ["residual_data", "data_rate"], "mut_params": ["residual_data", "data_rate"],
     "bind": {"observation.total_data_size": "size", "observation": "(some o)",
              "data_rate is None": "rateNone", "self.max_data_rate": "maxRate",
              "self.observations['stored'].append(observation)": "stored := stored ++ [o]"},
     "mut": {"self.current_capacity": "cur", "self.observations['transfer']": "slot"},
     "mut_order": ["self.current_capacity", "self.observations['transfer']"],
     "mut_init": {"cur": "cur0", "slot": "(none : Option Oid)", "stored": "stored0"},
     "extra_outs": ["stored"], "props": ["C18"]},
    # ---- C08: array accounting of the telescope
    {"name": "beginObservation", "file": "topsim/user/telescope.py", "cls": "Telescope", "func": "begin_observation",
     "mode": "func", "sig": "(use0 : Int) (status0 : Bool) (demand : Int) : RunStatus × Int × Bool",
     "bind": {"observation.demand": "demand", "RunStatus.RUNNING": "RunStatus.running"},
     "mut": {"self.telescope_use": "use", "self.telescope_status": "status"},
     "mut_order": ["self.telescope_use", "self.telescope_status"],
     "mut_init": {"use": "use0", "status": "status0"}, "props": ["C08"]},
    {"name": "finishObservation", "file": "topsim/user/telescope.py", "cls": "Telescope", "func": "finish_observation",
     "mode": "func", "sig": "(use0 : Int) (status0 : Bool) (demand : Int) : RunStatus × Int × Bool",
     "bind": {"observation.demand": "demand", "RunStatus.FINISHED": "RunStatus.finished"},
     "mut": {"self.telescope_use": "use", "self.telescope_status": "status"},
     "mut_order": ["self.telescope_use", "self.telescope_status"],
     "mut_init": {"use": "use0", "status": "status0"}, "props": ["C08"]},
    # ---- C09: batch provisioning size
    {"name": "maxResourceProvisionNoSplit", "file": "topsim/user/schedule/batch_allocation.py", "cls": "BatchProcessing",
     "func": "_max_resource_provision", "mode": "func", "select_else_of": "self.resource_split",
     "sig": "(available nMachines partitions : Nat) : Nat",
     "bind": {"len(cluster)": "nMachines", "self.max_resources_split": "partitions"},
     "rename": {}, "params_py": [], "pre_locals": ["available"], "local_types": {"max_allowed": "Nat"},
     "props": ["C09"]},
]


def translate(spec, src_cache):
    path = os.path.join(REPO, spec["file"])
    if path not in src_cache:
        src_cache[path] = ast.parse(open(path).read())
    fn = find_function(src_cache[path], spec["cls"], spec["func"])
    if fn is None:
        raise Untranslatable("function %s.%s not found" % (spec["cls"], spec["func"]))
    tr = Tr(spec)
    name = spec["name"]
    if spec["mode"] == "expr":
        exprs = find_exprs(fn, spec["locator"])
        if len(exprs) != 1:
            raise Untranslatable("locator %s matches %d expressions" % (spec["locator"], len(exprs)))
        return "def %s %s :=\n  %s\n" % (name, spec["sig"], tr.expr(exprs[0]))
    if spec["mode"] == "slice":
        stmts = slice_var(fn, spec["var"])
        if not stmts:
            raise Untranslatable("no assignments to %s" % spec["var"])
        lines = tr.block(stmts, 1)
        lines.append("  return %s" % spec["var"])
        return "def %s %s := Id.run do\n%s\n" % (name, spec["sig"], "\n".join(lines))
    body = fn.body
    if spec.get("select_else_of"):
        sel = [s for s in body if isinstance(s, ast.If) and tr.norm(s.test) == spec["select_else_of"]]
        if len(sel) != 1:
            raise Untranslatable("branch selector")
        body = sel[0].orelse
        for l in spec.get("pre_locals", []):
            tr.locals[l] = True
    pre = []
    for v, init in spec.get("mut_init", {}).items():
        pre.append("  let mut %s := %s" % (v, init))
    for v in spec.get("mut_params", []):
        pre.append("  let mut %s := %s" % (v, v))
        tr.locals[v] = True
    lines = tr.block(body, 1)
    if spec.get("final_return") is not None:
        lines.append("  " + tr.ret(spec["final_return"] or None))
    monad = "" if tr.monadic else "Id.run "
    return "def %s %s := %sdo\n%s\n" % (name, spec["sig"], monad, "\n".join(pre + lines))


HEADER = '''/-
  GENERATED by harness/py2lean.py from /repo's current source -- do not edit.
  One definition per translated Python function (see the table FUNCS).
-/
import TopsimModel.Config
import TopsimModel.Sys

set_option linter.unusedVariables false

namespace Topsim
namespace Gen

def _root_.Topsim.TimeUnit.isInt : TimeUnit → Bool
  | .int _ => true
  | .str _ => false

def _root_.Topsim.TimeUnit.intVal : TimeUnit → Int
  | .int n => n
  | .str _ => 0

'''


def regenerate(write=True):
    cache = {}
    parts = [HEADER]
    failures = []
    done = []
    for spec in FUNCS:
        try:
            text = translate(spec, cache)
            parts.append("/-- %s :: %s.%s -/\n%s" % (spec["file"], spec["cls"], spec["func"], text))
            done.append(spec["name"])
        except Untranslatable as e:
            failures.append({"name": spec["name"], "props": spec.get("props", []), "what": "untranslatable: %s" % e})
            parts.append("-- untranslatable: %s (%s)\n" % (spec["name"], e))
        except (OSError, SyntaxError) as e:
            failures.append({"name": spec["name"], "props": spec.get("props", []), "what": "source: %r" % (e,)})
    parts.append("end Gen\nend Topsim\n")
    text = "\n".join(parts)
    changed = False
    if write:
        os.makedirs(os.path.dirname(OUT), exist_ok=True)
        old = open(OUT).read() if os.path.exists(OUT) else None
        if old != text:
            with open(OUT, "w") as f:
                f.write(text)
            changed = True
    return {"functions": done, "failures": failures, "changed": changed, "count": len(done)}


if __name__ == "__main__":
    r = regenerate()
    print(r)
    if "--show" in sys.argv:
        print(open(OUT).read())
