#!/usr/bin/env python3
"""check.py <ID> [--tier quick|thorough] [--replay PATH]

Decides one property of top-sim/topsim on /repo's CURRENT working tree:

  (a) the property's Lean theorems compile (no sorry/admit/own axioms; axioms
      audited), with the translator-regenerated definitions of the source;
  (b) the tie to the code holds: bridge lemmas (translator) and the
      correspondence between the Lean model and the implementation on
      generated operation sequences / whole-simulation block traces;
  (c) an independent monitor of the property's statement on the real code
      finds no violating execution (this is also the failing-input search that
      runs when (a) or (b) breaks).

exit 0 = held on everything explored (KNOWN-FINDING lines for listed findings)
exit 1 = VIOLATION property=<id> replay=<path> [no-failing-input-found]
exit 2 = infrastructure failure / timeout
"""
import argparse
import hashlib
import json
import multiprocessing as mp
import os
import random
import re
import subprocess
import sys
import time

HERE = os.path.dirname(os.path.abspath(__file__))
VERIF = os.path.dirname(HERE)
LEAN = os.path.join(VERIF, "lean")
sys.path.insert(0, HERE)
os.environ.setdefault("TQDM_DISABLE", "1")
os.environ.setdefault("TOPSIM_VERIF", "1")

PY = "/venv/bin/python" if os.path.exists("/venv/bin/python") else sys.executable
if os.path.realpath(sys.executable) != os.path.realpath(PY) and os.environ.get("TOPSIM_VERIF_REEXEC") != "1":
    os.environ["TOPSIM_VERIF_REEXEC"] = "1"
    os.execv(PY, [PY] + sys.argv)

from props import PROPS, DIRECT_N  # noqa

ALLOWED_AXIOMS = {"propext", "Classical.choice", "Quot.sound"}
FORBIDDEN = re.compile(r"\bsorry\b|(?<![\w.])admit\b|^\s*axiom\s|native_decide|bv_decide|implemented_by|\bunsafe\s|maxHeartbeats\s+0")


def log(*a):
    print(*a, flush=True)


# --------------------------------------------------------------------- Lean
def strip_comments(src):
    src = re.sub(r"/-.*?-/", lambda m: "\n" * m.group(0).count("\n"), src, flags=re.S)
    return "\n".join(l.split("--")[0] for l in src.split("\n"))


def lean_files():
    out = []
    for d in ("TopsimModel", "TopsimGen", "TopsimProofs", "TopsimProps"):
        p = os.path.join(LEAN, d)
        if os.path.isdir(p):
            for root, _, files in os.walk(p):
                for f in files:
                    if f.endswith(".lean"):
                        out.append(os.path.join(root, f))
    return sorted(out)


def closure_files(mods):
    """project files imported (transitively) by the given modules"""
    seen, todo = set(), list(mods) + ["Driver"]
    while todo:
        m = todo.pop()
        if m in seen:
            continue
        p = module_file(m)
        if not os.path.exists(p):
            continue
        seen.add(m)
        for line in open(p):
            mm = re.match(r"\s*import\s+(\S+)", line)
            if mm and mm.group(1).split(".")[0] in ("TopsimModel", "TopsimGen", "TopsimProofs", "TopsimProps"):
                todo.append(mm.group(1))
    return sorted(module_file(m) for m in seen)


def module_file(mod):
    return os.path.join(LEAN, *mod.split(".")) + ".lean"


def theorems_of(mod):
    p = module_file(mod)
    if not os.path.exists(p):
        return []
    src = strip_comments(open(p).read())
    names = []
    ns = []
    for line in src.split("\n"):
        m = re.match(r"\s*namespace\s+(\S+)", line)
        if m:
            ns.append(m.group(1))
            continue
        m = re.match(r"\s*end\s+(\S+)", line)
        if m and ns and ns[-1] == m.group(1):
            ns.pop()
            continue
        if re.match(r"\s*(@\[[^\]]*\]\s*)?private\s", line):
            continue          # private helper lemmas are not obligations
        m = re.match(r"\s*(?:@\[[^\]]*\]\s*)?(?:protected\s+)?theorem\s+([\w.']+)", line)
        if m:
            names.append(".".join(ns + [m.group(1)]))
    return names


def lean_stage(pid, tier):
    """build, audit, grep.  Returns dict(ok, obligations, discharged, failures, axioms)."""
    cfg = PROPS[pid]
    res = {"ok": True, "obligations": 0, "discharged": 0, "failures": [], "axioms": {}, "theorems": [],
           "wall_s": 0.0, "translator": None}
    t0 = time.time()
    # (T) regenerate the extracted definitions from /repo's current source
    try:
        import py2lean
        tr = py2lean.regenerate()
        res["translator"] = tr
        for f in tr.get("failures", []):
            if pid in f["props"]:
                res["failures"].append({"stage": "translator", "what": "%s: %s" % (f["name"], f["what"])})
    except ImportError:
        res["translator"] = {"skipped": "translator not present"}
    except Exception as e:   # noqa
        res["failures"].append({"stage": "translator", "what": repr(e)[:300]})
    mods = [m for m in cfg["lean"] if os.path.exists(module_file(m))]
    missing = [m for m in cfg["lean"] if not os.path.exists(module_file(m))]
    for m in missing:
        res["failures"].append({"stage": "build", "what": "module %s missing" % m})
    thms = []
    for m in mods:
        thms += theorems_of(m)
    res["theorems"] = thms
    res["obligations"] = len(thms)
    targets = mods + ["driver"]
    p = subprocess.run(["lake", "build"] + targets, cwd=LEAN, capture_output=True, text=True)
    if p.returncode != 0:
        errs = [l for l in (p.stdout + p.stderr).split("\n") if "error" in l.lower()][:8]
        res["failures"].append({"stage": "build", "what": "lake build %s failed" % " ".join(targets), "errors": errs})
        res["ok"] = False
        res["wall_s"] = time.time() - t0
        return res
    # forbidden tokens (comments stripped) in everything the property's modules import
    for f in closure_files(mods):
        src = strip_comments(open(f).read())
        for i, line in enumerate(src.split("\n")):
            if FORBIDDEN.search(line):
                res["failures"].append({"stage": "grep", "what": "%s:%d: %s" % (os.path.relpath(f, LEAN), i + 1, line.strip()[:80])})
    # axioms of every property theorem
    work = os.path.join(VERIF, ".work")
    os.makedirs(work, exist_ok=True)
    audit = os.path.join(work, "Audit_%s_%d.lean" % (pid, os.getpid()))
    with open(audit, "w") as f:
        for m in mods:
            f.write("import %s\n" % m)
        for t in thms:
            f.write("#print axioms %s\n" % t)
    p = subprocess.run(["lake", "env", "lean", audit], cwd=LEAN, capture_output=True, text=True)
    os.remove(audit)
    out = p.stdout + p.stderr
    cur = None
    for m in re.finditer(r"'([\w.']+)' (?:depends on axioms: \[([^\]]*)\]|does not depend on any axioms)", out):
        name = m.group(1)
        axs = [a.strip() for a in (m.group(2) or "").replace("\n", " ").split(",") if a.strip()]
        res["axioms"][name] = axs
    for t in thms:
        if t not in res["axioms"]:
            res["failures"].append({"stage": "audit", "what": "no axiom report for %s" % t})
        elif not set(res["axioms"][t]) <= ALLOWED_AXIOMS:
            res["failures"].append({"stage": "audit", "what": "%s uses %s" % (t, res["axioms"][t])})
        else:
            res["discharged"] += 1
    if tier == "thorough" and not res["failures"]:
        p = subprocess.run(["lake", "env", "leanchecker"] + mods, cwd=LEAN, capture_output=True, text=True)
        res["leanchecker"] = "ok" if p.returncode == 0 else (p.stdout + p.stderr)[-400:]
        if p.returncode != 0:
            res["failures"].append({"stage": "leanchecker", "what": res["leanchecker"]})
    res["ok"] = not res["failures"]
    res["wall_s"] = time.time() - t0
    return res


# ------------------------------------------------------------ known findings
def known_findings():
    known, fixed = [], []
    p = os.path.join(VERIF, "KNOWN_FINDINGS.txt")
    for line in open(p):
        line = line.strip()
        m = re.match(r"known:\s+property=(\S+)\s+sig=(\S+)\s+(.*)", line)
        if m:
            known.append({"prop": m.group(1), "sig": m.group(2), "what": m.group(3)})
        m = re.match(r"fixed:\s+property=(\S+)\s+(\S+)\s+(.*)", line)
        if m:
            fixed.append({"prop": m.group(1), "commit": m.group(2), "what": m.group(3)})
    return known, fixed


# ------------------------------------------------------------------- replays
def write_replay(pid, payload):
    d = os.environ.get("VERIF_REPLAY_DIR") or os.path.join(VERIF, "replays")
    os.makedirs(d, exist_ok=True)
    h = hashlib.sha1(json.dumps(payload, sort_keys=True, default=str).encode()).hexdigest()[:10]
    p = os.path.join(d, "%s-%s.json" % (pid, h))
    with open(p, "w") as f:
        json.dump(payload, f, indent=1, default=str)
    return p


def do_replay(pid, path):
    """Re-execute a recorded violation on the real code."""
    import cases
    payload = json.load(open(path))
    kind = payload.get("kind")
    if kind == "case":
        out = cases.run_case((payload["stream"], payload["seed"], [pid],
                              {"spec": payload.get("spec"), "opt": payload.get("opt")}))
        v = [x for x in out.get("violations", []) if x["prop"] == pid]
        log("replay of %s stream=%s seed=%s: %d violations of %s" % (path, payload["stream"], payload["seed"], len(v), pid))
        for x in v[:5]:
            log("  ", x["kind"], x.get("detail", "")[:200])
        if out.get("replay", {}).get("diffs"):
            log("  model/implementation differ:", out["replay"]["diffs"][0]["where"])
        return 1 if v else 0
    if kind == "direct":
        import direct
        fn = getattr(direct, "check_" + payload["check"])
        try:
            r = fn(random.Random(payload["seed"]), payload["n"]) if payload["check"] != "c15" else fn(random.Random(0), 0)
        except Exception as e:   # noqa  the implementation raised inside the direct check (that is the replay)
            log("replay of %s: direct check %s: the implementation raised %s: %s" % (
                path, payload["check"], type(e).__name__, str(e)[:200]))
            return 1
        v = [x for x in r["violations"] if x["prop"] == pid and x["sig"] == payload.get("sig", x["sig"])]
        log("replay of %s: direct check %s: %d violations" % (path, payload["check"], len(v)))
        for x in v[:5]:
            log("  ", x["kind"], x.get("detail", "")[:200], x.get("input"))
        return 1 if v else 0
    log("replay file names a proof obligation / correspondence that no longer checks:")
    log(json.dumps(payload, indent=1)[:2000])
    return 1


# ---------------------------------------------------------------------- main
def main():
    ap = argparse.ArgumentParser()
    ap.add_argument("pid")
    ap.add_argument("--tier", default=os.environ.get("VERIF_TIER", "quick"))
    ap.add_argument("--replay")
    ap.add_argument("--seed", type=int, default=int(os.environ.get("VERIF_SEED", "0") or 0))
    ap.add_argument("--jobs", type=int, default=int(os.environ.get("VERIF_JOBS", "14")))
    a = ap.parse_args()
    pid, tier = a.pid, a.tier
    if pid not in PROPS:
        log("unknown property", pid)
        return 2
    if a.replay:
        return do_replay(pid, a.replay)
    t0 = time.time()
    cfg = PROPS[pid]
    known, fixed = known_findings()
    known = [k for k in known if k["prop"] == pid]

    lean = lean_stage(pid, tier)
    log("[%s] lean: %d/%d obligations discharged, %s (%.1fs)" % (
        pid, lean["discharged"], lean["obligations"], "ok" if lean["ok"] else "BROKEN", lean["wall_s"]))
    for f in lean["failures"][:6]:
        log("   ", f)

    # ---- generated cases (pool) + corpus
    import cases
    jobs = []
    corpus = load_corpus(pid, [x[0] for x in cfg.get("streams", [])])
    for c in corpus:
        if c.get("spec") and c.get("opt"):
            jobs.append((c["stream"], "corpus:" + c["_file"], None, {"spec": c["spec"], "opt": c["opt"]}))
        else:
            jobs.append((c["stream"], c["seed"], None))
    for (stream, nq, nt) in cfg.get("streams", []):
        n = nq if tier == "quick" else nt
        for i in range(n):
            jobs.append((stream, a.seed * 100003 + i, None))
    results = []
    if jobs:
        with mp.Pool(min(a.jobs, max(1, len(jobs)))) as pool:
            for r in pool.imap_unordered(cases.run_case, jobs, chunksize=1):
                results.append(r)
    infra = [r for r in results if "infra_error" in r]
    if infra:
        log("infrastructure error in a case:", infra[0]["infra_error"][-800:])
        return 2

    # ---- direct checks
    direct_res = {}
    if cfg.get("direct"):
        import direct
        for name in cfg["direct"]:
            n = DIRECT_N[name][0 if tier == "quick" else 1]
            rng = random.Random("%s-%s" % (name, a.seed))
            fn = getattr(direct, "check_" + name)
            try:
                if name in ("c15", "c11"):
                    direct_res[name] = fn(rng, n, thorough=(tier == "thorough"))
                else:
                    direct_res[name] = fn(rng, n)
            except Exception as e:   # noqa
                # a direct check drives the real code on legal inputs: an exception it does not expect is a
                # behaviour of the implementation (a violation with this check as replay) when the traceback
                # ends inside /repo or a library it calls on /repo's behalf, an infrastructure failure otherwise
                import traceback
                tb, ex, seen = [], e, set()
                while ex is not None and id(ex) not in seen:      # SimPy re-raises a copy: follow the cause chain
                    seen.add(id(ex))
                    tb += traceback.extract_tb(ex.__traceback__)
                    ex = ex.__cause__ or ex.__context__
                repo = os.path.realpath(os.environ.get("TOPSIM_REPO", "/repo"))
                inside = [f for f in tb if os.path.realpath(f.filename).startswith(repo + os.sep)]
                if not inside:
                    log("infrastructure error in direct check %s: %s" % (name, "".join(traceback.format_exception(e))[-1200:]))
                    return 2
                where = inside[-1]
                direct_res[name] = {
                    "evaluations": 1, "nontrivial": 0, "dist": {}, "samples": [], "diffs": [],
                    "violations": [{"prop": pid, "kind": "implementation-raised-in-direct-check",
                                    "sig": "direct-raised:%s@%s:%s" % (type(e).__name__, os.path.basename(where.filename), where.name),
                                    "detail": "%s: %s (in %s:%d %s), while running direct check %s" % (
                                        type(e).__name__, str(e)[:120], os.path.relpath(where.filename, repo), where.lineno, where.name, name),
                                    "input": None}]}

    # ---- collect
    viol, diffs = [], []
    evaluations = 0
    nontrivial = set()
    blocks = 0
    traces = 0
    dist = {}
    samples = []
    for r in results:
        evaluations += 1
        rp = r.get("replay") or {}
        blocks += rp.get("blocks", 0)
        if rp.get("blocks"):
            traces += 1
        for d in rp.get("diffs", []):
            diffs.append({"stream": r["stream"], "seed": r["seed"], "diff": d})
        for v in r.get("violations", []):
            if v["prop"] == pid or v["prop"] == "*":
                viol.append(dict(v, prop=pid, stream=r["stream"], seed=r["seed"]))
        f2 = r.get("feat2") or {}
        key = (r["stream"], f2.get("pairing"), f2.get("machines"), f2.get("observations"), f2.get("tasks"),
               f2.get("overlapping_pairs"), f2.get("delay"))
        ft = r.get("features") or {}
        nt = (f2.get("tasks", 0) >= 2 or r["stream"] == "clusterops") and (
            (f2.get("observations", 1) >= 2) or ft.get("reservation") or ft.get("refused_alloc") or
            ft.get("fractional") or r["stream"] == "clusterops" or f2.get("tasks", 0) >= 4)
        if nt:
            nontrivial.add(key if r["stream"] != "clusterops" else ("clusterops", r["seed"]))
        for k in ("stream",):
            dist["stream:" + r[k]] = dist.get("stream:" + r[k], 0) + 1
        if f2:
            dist["pairing:%s" % f2.get("pairing")] = dist.get("pairing:%s" % f2.get("pairing"), 0) + 1
            dist["delay:%s" % f2.get("delay")] = dist.get("delay:%s" % f2.get("delay"), 0) + 1
            if f2.get("overlapping_pairs"):
                dist["overlapping-observations"] = dist.get("overlapping-observations", 0) + 1
        for k, v in ft.items():
            if v:
                dist["feature:" + k] = dist.get("feature:" + k, 0) + (v if isinstance(v, int) else 1)
        if r.get("exception"):
            dist["run-raised:" + r["exception"]["type"]] = dist.get("run-raised:" + r["exception"]["type"], 0) + 1
        if r.get("tier_moves"):
            dist["runs-with-tier-moves"] = dist.get("runs-with-tier-moves", 0) + 1
        if len(samples) < 3 and r.get("spec"):
            samples.append({"stream": r["stream"], "seed": r["seed"],
                            "machines": len(r["spec"]["machines"]),
                            "observations": [[o["name"], o["start"], o["duration"], o["ingest_demand"],
                                              len(o["workflow"]["nodes"])] for o in r["spec"]["observations"]],
                            "scheduling": r["spec"]["scheduling"], "end": r.get("end"),
                            "blocks_replayed_on_model": rp.get("blocks", 0)})
        elif len(samples) < 3 and r.get("ops"):
            samples.append({"stream": r["stream"], "seed": r["seed"], "ops": r["ops"][:12]})
    for name, dr in direct_res.items():
        evaluations += dr["evaluations"]
        for i in range(dr["nontrivial"]):
            nontrivial.add((name, i))
        for v in dr["violations"]:
            if v["prop"] == pid:
                viol.append(dict(v, stream="direct:" + name, seed=a.seed))
        for d in dr["diffs"]:
            diffs.append({"stream": "direct:" + name, "seed": a.seed, "diff": d})
        for k, v in dr["dist"].items():
            dist["%s:%s" % (name, k)] = v
        samples += [dict(s, check=name) for s in dr["samples"][:2]]

    # ---- verdict
    new_viol, known_hit = [], {}
    for v in viol:
        k = [x for x in known if x["sig"] == v.get("sig")]
        if k:
            known_hit.setdefault(k[0]["sig"], []).append(v)
        else:
            new_viol.append(v)
    for k in known:
        hits = known_hit.get(k["sig"], [])
        if hits:
            log("KNOWN-FINDING: property=%s %s [%s; reproduced %d time(s), e.g. stream=%s seed=%s]" % (
                pid, k["what"], k["sig"], len(hits), hits[0]["stream"], hits[0]["seed"]))
        else:
            log("KNOWN-FINDING: property=%s %s [%s; not reproduced in this run]" % (pid, k["what"], k["sig"]))
    status = 0
    replay_path = None
    broken = []
    if not lean["ok"]:
        broken.append({"what": "proof obligation / bridge", "failures": lean["failures"][:10]})
    if diffs:
        broken.append({"what": "correspondence model vs implementation", "first": diffs[0]})
    if new_viol:
        v = new_viol[0]
        payload = {"property": pid, "kind": "direct" if str(v["stream"]).startswith("direct:") else "case",
                   "stream": v["stream"], "seed": v["seed"], "violation": {k: v[k] for k in v if k not in ("input",)},
                   "input": v.get("input"), "how": "python3 harness/check.py %s --replay <this file>" % pid}
        if payload["kind"] == "direct":
            name = v["stream"].split(":")[1]
            payload.update({"check": name, "n": DIRECT_N[name][0 if tier == "quick" else 1],
                            "seed": "%s-%s" % (name, a.seed), "sig": v.get("sig")})
        else:
            spec = [r["spec"] for r in results if r["stream"] == v["stream"] and r["seed"] == v["seed"]]
            payload["spec"] = spec[0] if spec else None
            opt = [r.get("opt") for r in results if r["stream"] == v["stream"] and r["seed"] == v["seed"]]
            payload["opt"] = opt[0] if opt else None
        replay_path = write_replay(pid, payload)
        log("VIOLATION property=%s replay=%s" % (pid, replay_path))
        log("   %s: %s" % (v["kind"], str(v.get("detail"))[:300]))
        status = 1
    elif broken:
        payload = {"property": pid, "kind": "unproved", "broken": broken,
                   "searched": {"cases": evaluations, "blocks_replayed": blocks},
                   "note": "the proof obligation / correspondence named here no longer checks against /repo's current "
                           "source; the failing-input search (monitors on %d executions) found no violating input" % evaluations}
        replay_path = write_replay(pid, payload)
        log("VIOLATION property=%s replay=%s no-failing-input-found" % (pid, replay_path))
        status = 1

    # ---- evidence
    wall = time.time() - t0
    ev = {
        "property_id": pid, "tier": tier, "seed": a.seed, "level": "proof",
        "coverage": {
            "obligations": max(1, lean["obligations"]), "discharged": lean["discharged"],
            "checker_cmd": "cd lean && lake build %s && lake env lean <Audit.lean: #print axioms of every theorem>%s" % (
                " ".join(cfg["lean"]), " && lake env leanchecker ..." if tier == "thorough" else ""),
            "trusted_base": TRUSTED_BASE,
            "theorems": lean["theorems"],
            "axioms_used": sorted(set(x for v in lean["axioms"].values() for x in v)),
            "translator": lean.get("translator"),
            "evaluations": evaluations, "distinct_nontrivial": len(nontrivial),
            "rule": "cases come from the seeded generators of harness/cases.py + harness/direct.py; a case is non-trivial "
                    "when it has >= 2 tasks and (>= 2 observations or a reservation or a refused allocation or a "
                    "fractional transfer wait or >= 4 tasks), distinct by (stream, pairing, machines, observations, "
                    "tasks, overlaps, delay kind); cluster op histories count one each; direct checks count what they "
                    "report as non-trivial",
            "samples": samples[:6] or [{"note": "no generated cases for this property; theorems only", "theorems": lean["theorems"][:5]}],
            "traces_validated_against_impl": traces,
            "blocks_replayed_on_model": blocks,
            "model_vs_impl_disagreements": len(diffs),
            "input_distribution": dist,
            "known_findings_reproduced": {k: len(v) for k, v in known_hit.items()},
            "lean_failures": lean["failures"][:10],
        },
        "assumptions": ASSUMPTIONS,
        "wall_s": round(wall, 2),
        "violations": len(new_viol) + (1 if (broken and not new_viol) else 0),
    }
    evdir = os.environ.get("VERIF_EVIDENCE_DIR") or os.path.join(VERIF, "evidence")
    os.makedirs(evdir, exist_ok=True)
    with open(os.path.join(evdir, "%s.json" % pid), "w") as f:
        json.dump(ev, f, indent=1, default=str)
    log("[%s] %s: %d cases, %d blocks replayed on the model, %d disagreements, %d violations (%d known), %.1fs" % (
        pid, tier, evaluations, blocks, len(diffs), len(viol), len(viol) - len(new_viol), wall))
    return status


def load_corpus(pid, streams=None):
    d = os.path.join(VERIF, "corpus")
    out = []
    if os.path.isdir(d):
        for f in sorted(os.listdir(d)):
            if f.endswith(".json"):
                c = json.load(open(os.path.join(d, f)))
                # an entry also serves every property whose own streams include the entry's stream
                if pid in c.get("props", []) or (streams and c.get("stream") in streams and c.get("spec")):
                    c["_file"] = f[:-5]
                    out.append(c)
    return out


TRUSTED_BASE = [
    "Lean 4.33 kernel; axioms propext, Classical.choice, Quot.sound only (audited per theorem with #print axioms)",
    "translator harness/py2lean.py (PyLite -> Lean) and its access-path table",
    "correspondence harness: tracer (generator wrapping), canonical digests (harness/replay.py), Lean driver parser",
    "modelled, not verified: SimPy kernel order, CPython list/dict semantics, float arithmetic as exact rationals "
    "(generators keep quantities whole), networkx graph queries (contract checked per graph), numpy samplers "
    "(draws are parameters), pandas (cells read back), harness StaticPlanning stands in for SHADOW",
]
ASSUMPTIONS = [
    "quantities are whole multiples of the unit (Python floats exact); int(a/b) = floor(a/b) below 2^53",
    "each block of a SimPy process is atomic (cooperative scheduling)",
]

if __name__ == "__main__":
    try:
        sys.exit(main())
    except KeyboardInterrupt:
        sys.exit(2)
