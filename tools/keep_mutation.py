#!/usr/bin/env python3
"""Confirm a seeded change produced by a sub-agent and file it under /verif/seeded/<name>/.
usage: keep_mutation.py <worktree> <name> <primary property> [other properties to run...]

Confirms: (1) demo FAILS in the worktree (change applied), (2) demo PASSES on /repo (unchanged),
(3) with the change applied to /repo the baseline tests still pass, then runs the checks
(tools/try_mutation.py) and records which detect it."""
import json
import os
import shutil
import subprocess
import sys

VERIF = os.path.dirname(os.path.dirname(os.path.abspath(__file__)))


def sh(cmd, **kw):
    return subprocess.run(cmd, shell=True, capture_output=True, text=True, **kw)


def main():
    wt, name, primary = sys.argv[1], sys.argv[2], sys.argv[3]
    props = [primary] + sys.argv[4:]
    mdir = os.path.join(wt, "_mutation")
    patch = os.path.join(mdir, "patch.diff")
    # regenerate the diff from the worktree itself (authoritative)
    d = sh("git -C %s diff -- topsim" % wt).stdout
    if d.strip():
        open(patch, "w").write(d)
    env = dict(os.environ, TQDM_DISABLE="1")
    with_change = sh("cd %s && /venv/bin/python _mutation/demo.py" % wt, env=env)
    # run the same demo against the unchanged tree: place it where it sits in the worktree
    os.makedirs("/repo/_mutation", exist_ok=True)
    shutil.copy(os.path.join(mdir, "demo.py"), "/repo/_mutation/demo.py")
    try:
        without = sh("cd /repo && /venv/bin/python _mutation/demo.py", env=env)
    finally:
        shutil.rmtree("/repo/_mutation", ignore_errors=True)
    print("demo with change   : rc=%d %s" % (with_change.returncode, with_change.stdout.strip().split("\n")[-1][:200]))
    print("demo without change: rc=%d %s" % (without.returncode, without.stdout.strip().split("\n")[-1][:200]))
    ok = with_change.returncode != 0 and without.returncode == 0
    r = sh("cd %s && python3 tools/try_mutation.py %s %s" % (VERIF, patch, " ".join(props)))
    print(r.stdout[-3000:])
    last = [l for l in r.stdout.split("\n") if l.startswith("{")]
    res = json.loads(last[-1]) if last else {}
    tests_ok = "30 passed" in res.get("tests", "")
    dest = os.path.join(VERIF, "seeded", name)
    os.makedirs(dest, exist_ok=True)
    shutil.copy(patch, os.path.join(dest, "patch.diff"))
    shutil.copy(os.path.join(mdir, "demo.py"), os.path.join(dest, "demo.py"))
    readme = os.path.join(mdir, "README.txt")
    meta = {
        "name": name, "breaks_property": primary,
        "needs_to_manifest": open(readme).read() if os.path.exists(readme) else "",
        "confirmed": {"demo_fails_with_change": with_change.returncode != 0,
                      "demo_passes_without_change": without.returncode == 0,
                      "baseline_tests_with_change": res.get("tests"),
                      "what_was_run": ["cd <worktree> && /venv/bin/python _mutation/demo.py",
                                       "cd /repo && /venv/bin/python demo.py (unchanged tree)",
                                       "git -C /repo apply patch.diff; pytest baseline; python3 harness/check.py <P> --tier quick; git -C /repo checkout -- ."]},
        "checks": {p: {k: v for k, v in res.get("results", {}).get(p, {}).items() if k in ("status", "no_failing_input", "detail")}
                   for p in props},
        "kept": bool(ok and tests_ok),
    }
    json.dump(meta, open(os.path.join(dest, "meta.json"), "w"), indent=1)
    print("KEPT" if meta["kept"] else "NOT KEPT (confirmation failed)", dest)


if __name__ == "__main__":
    main()
