#!/usr/bin/env python3
"""Apply a seeded change to /repo, run the quick checks of the given
properties, undo the change.  usage: try_mutation.py <patch.diff> [C01 C02 ...] [--tier quick]

Prints one line per property: DETECTED (exit 1 + VIOLATION line) / missed / error."""
import json
import os
import re
import subprocess
import sys
import time

VERIF = os.path.dirname(os.path.dirname(os.path.abspath(__file__)))
REPO = "/repo"


def sh(cmd, **kw):
    return subprocess.run(cmd, shell=True, capture_output=True, text=True, **kw)


def main():
    args = [a for a in sys.argv[1:] if not a.startswith("--")]
    tier = "quick"
    if "--thorough" in sys.argv:
        tier = "thorough"
    patch = os.path.abspath(args[0])
    props = args[1:] or ["C%02d" % i for i in range(1, 20)]
    st = sh("git -C %s status --porcelain -- topsim" % REPO).stdout.strip()
    if st:
        print("refusing: /repo has local changes:\n" + st)
        return 2
    r = sh("git -C %s apply %s" % (REPO, patch))
    if r.returncode != 0:
        print("patch does not apply:", r.stderr)
        return 2
    out = {"patch": patch, "results": {}}
    try:
        if "--no-tests" not in sys.argv:
            t = sh("cd %s && /venv/bin/python -m pytest -q -p no:cacheprovider --timeout=900 --continue-on-collection-errors 2>&1 | tail -1" % REPO)
            out["tests"] = t.stdout.strip()
            print("baseline tests with the change:", out["tests"])
        for p in props:
            t0 = time.time()
            # evidence of runs on a changed tree must not overwrite the committed evidence
            c = sh("cd %s && VERIF_EVIDENCE_DIR=%s/.work/mutation-evidence VERIF_REPLAY_DIR=%s/.work/mutation-replays python3 harness/check.py %s --tier %s" % (VERIF, VERIF, VERIF, p, tier))
            lines = [l for l in c.stdout.split("\n") if l.startswith("VIOLATION")]
            what = [l for l in c.stdout.split("\n") if l.startswith("   ") and ":" in l][:2]
            status = "DETECTED" if (c.returncode == 1 and lines) else ("missed" if c.returncode == 0 else "error rc=%d" % c.returncode)
            nf = any("no-failing-input-found" in l for l in lines)
            out["results"][p] = {"status": status, "violation": lines[:1], "no_failing_input": nf, "detail": what,
                                 "wall_s": round(time.time() - t0, 1)}
            print("%s %-9s %s %s (%.0fs)" % (p, status, "(no-failing-input-found)" if nf else "", (what[0].strip()[:150] if what else ""), time.time() - t0))
            if status.startswith("error"):
                print(c.stdout[-1500:], c.stderr[-1500:])
    finally:
        sh("git -C %s checkout -- ." % REPO)
        sh("cd %s && python3 harness/py2lean.py" % VERIF)
        st = sh("git -C %s status --porcelain -- topsim" % REPO).stdout.strip()
        print("repo restored:", "clean" if not st else st)
    print(json.dumps(out))
    return 0


if __name__ == "__main__":
    sys.exit(main())
