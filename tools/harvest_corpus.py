#!/usr/bin/env python3
"""Turn the failing inputs that the checks found for seeded changes
(.work/mutation-replays/*.json, written by tools/try_mutation.py) into corpus
entries: corpus/<prop>-<hash>.json = {props, stream, seed, spec, opt, origin}.

A corpus entry carries the whole generated configuration, so it keeps
exercising the same scenario when the generators change.  Entries run first in
every check of the listed properties.  Only inputs that PASS on the unchanged
tree are kept (an entry that fails there would be a finding, not a corpus case).

usage: harvest_corpus.py            (harvest + verify on the clean tree)
"""
import glob
import hashlib
import json
import os
import subprocess
import sys

VERIF = os.path.dirname(os.path.dirname(os.path.abspath(__file__)))
sys.path.insert(0, os.path.join(VERIF, "harness"))


def main():
    src = os.path.join(VERIF, ".work", "mutation-replays")
    dst = os.path.join(VERIF, "corpus")
    os.makedirs(dst, exist_ok=True)
    st = subprocess.run("git -C /repo status --porcelain -- topsim", shell=True, capture_output=True, text=True).stdout.strip()
    if st:
        print("refusing: /repo has local changes")
        return 2
    import cases
    seen = set()
    for f in glob.glob(os.path.join(dst, "*.json")):
        c = json.load(open(f))
        seen.add(hashlib.sha1(json.dumps([c.get("spec"), c.get("opt")], sort_keys=True, default=str).encode()).hexdigest())
    kept = dropped = 0
    for f in sorted(glob.glob(os.path.join(src, "*.json"))):
        p = json.load(open(f))
        if p.get("kind") != "case" or not p.get("spec"):
            continue
        if not p.get("opt"):
            # older replay files: regenerate the options from (stream, seed) and make sure it is the same case
            import random
            try:
                spec2, opt2 = cases.make_spec(p["stream"], random.Random("%s-%s" % (p["stream"], p["seed"])),
                                              edge_index=int(p["seed"]))
            except Exception:   # noqa
                continue
            if json.loads(json.dumps(spec2, default=str)) != p["spec"]:
                continue
            p["opt"] = opt2
        h = hashlib.sha1(json.dumps([p["spec"], p["opt"]], sort_keys=True, default=str).encode()).hexdigest()
        if h in seen:
            continue
        seen.add(h)
        pid = p["property"]
        out = cases.run_case((p["stream"], p["seed"], [pid], {"spec": p["spec"], "opt": p["opt"]}))
        bad = [v for v in out.get("violations", []) if v["prop"] == pid] or out.get("infra_error") or \
            (out.get("replay") or {}).get("diffs")
        if bad:
            dropped += 1
            print("not kept (does not pass on the unchanged tree):", os.path.basename(f), str(bad)[:160])
            continue
        entry = {"props": [pid], "stream": p["stream"], "seed": p["seed"], "spec": p["spec"], "opt": p["opt"],
                 "origin": "failing input found under a seeded change (%s: %s)" % (
                     pid, (p.get("violation") or {}).get("kind"))}
        with open(os.path.join(dst, "%s-%s.json" % (pid, h[:10])), "w") as g:
            json.dump(entry, g, indent=1, default=str)
        kept += 1
    print("kept %d, dropped %d, corpus now %d entries" % (kept, dropped, len(glob.glob(os.path.join(dst, "*.json")))))
    return 0


if __name__ == "__main__":
    sys.exit(main())
