#!/usr/bin/env python3
"""Prepare one round of seeded-change prompts: make_prompts.py <suffix letter>
Creates a scratch worktree /tmp/mut/<Cxx><suffix> per property and writes
/tmp/mut/full_<Cxx><suffix>.txt (template + property text + the changed lines of the
seeded changes already kept for that property, so that a new one differs)."""
import glob, os, subprocess, sys
KIT = os.path.dirname(os.path.abspath(__file__))
suffix = sys.argv[1]
os.makedirs('/tmp/mut', exist_ok=True)
for f in ("TEMPLATE.txt", "RECIPE.md"):
    open('/tmp/mut/' + f, 'w').write(open(os.path.join(KIT, f)).read())
T = open(os.path.join(KIT, 'TEMPLATE.txt')).read()
HEAD = (": other people have already written the following changes for this property; yours must be DIFFERENT "
        "(a different site or a different mechanism), not a variation of one of them:")
for P in ["C%02d" % i for i in range(1, 20)]:
    ID = P + suffix
    WT = "/tmp/mut/" + ID
    if not os.path.exists(WT):
        subprocess.run(["git", "-C", "/repo", "worktree", "add", "--detach", WT, "HEAD"], check=True, capture_output=True)
    prop = open(os.path.join(KIT, 'prompt_%s.txt' % P)).read()
    s = T.replace("{WT}", WT).replace("{RECIPE}", "/tmp/mut/RECIPE.md").replace("{ID}", ID).replace("{PROP}", prop)
    patches = [open(f).read() for f in sorted(glob.glob('/verif/seeded/%s-*/patch.diff' % P))]
    short = []
    for pt in patches:
        short.append("\n".join(l for l in pt.split("\n") if l.startswith(("+++", "@@", "+", "-")) and not l.startswith("---")))
    s += "\n\nIMPORTANT" + HEAD + "\n\n" + "\n\n---- another existing change ----\n\n".join(short)
    s += ("\n\nNote: the line numbers quoted in 'Mechanisms that currently make it hold' may be off by several lines "
          "(the repository has received small fixes since they were written); find the mechanisms by reading the code. "
          "When you need to kill a stuck demo, kill only your own process id (never `pkill -f` with a generic pattern: "
          "other people run similarly named scripts). Bound every simulation in your demo by a step limit so that it "
          "cannot hang. Prefer a change in a file or function that NONE of the existing changes touches, and a trigger "
          "that needs an unusual but legal combination (several observations, a particular scheduling algorithm together "
          "with a particular workflow shape, pause/resume in the middle, a custom timestep, a delay model, a batch split, "
          "non-chronological observation lists, equal values at a boundary).\n")
    open('/tmp/mut/full_%s.txt' % ID, 'w').write(s)
    print(ID, len(patches), len(s))
