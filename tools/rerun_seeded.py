#!/usr/bin/env python3
"""Re-run every seeded change under /verif/seeded against the current checks
(apply to /repo, run quick checks of the recorded properties, undo) and record
the outcome in meta.json under "current".  Prints a table."""
import glob
import json
import os
import subprocess
import sys

VERIF = os.path.dirname(os.path.dirname(os.path.abspath(__file__)))


def main():
    only = [a for a in sys.argv[1:] if not a.startswith("--")]
    primary_only = "--primary-only" in sys.argv
    rows = []
    for mp in sorted(glob.glob(os.path.join(VERIF, "seeded", "*", "meta.json"))):
        d = os.path.dirname(mp)
        name = os.path.basename(d)
        if only and not any(o in name for o in only):
            continue
        meta = json.load(open(mp))
        props = list(meta.get("checks", {}).keys()) or [meta["breaks_property"]]
        if meta["breaks_property"] not in props:
            props.insert(0, meta["breaks_property"])
        if primary_only:
            props = [meta["breaks_property"]]
        r = subprocess.run(["python3", os.path.join(VERIF, "tools", "try_mutation.py"),
                            os.path.join(d, "patch.diff"), "--no-tests"] + props, capture_output=True, text=True)
        last = [l for l in r.stdout.split("\n") if l.startswith("{")]
        res = json.loads(last[-1]) if last else {"results": {}}
        if "first_run" not in meta:
            meta["first_run"] = meta.get("checks", {})
        cur = dict(meta.get("current", {})) if primary_only else {}
        cur.update({p: {k: v for k, v in res["results"].get(p, {}).items()
                        if k in ("status", "no_failing_input", "detail")} for p in props})
        meta["current"] = cur
        meta["checks"] = meta["current"]
        json.dump(meta, open(mp, "w"), indent=1)
        line = "%-52s %s" % (name, "  ".join("%s:%s%s" % (p, v.get("status", "?"), "(nfi)" if v.get("no_failing_input") else "")
                                            for p, v in meta["current"].items() if p in props))
        print(line, flush=True)
        rows.append(line)
    return 0


if __name__ == "__main__":
    sys.exit(main())
